#!/bin/bash
# MANIFEST.setup_cmd: make hypothesis importable for /venv/bin/python, offline. Idempotent.
set -e
cd "$(dirname "$0")"
if ! /venv/bin/python -c "import hypothesis" 2>/dev/null; then
  PIP_NO_INDEX=1 /venv/bin/pip install --no-index --find-links /opt/veriftools/wheels hypothesis
fi
/venv/bin/python -c "import hypothesis, numpy, scipy; print('setup ok: hypothesis', hypothesis.__version__, 'numpy', numpy.__version__, 'scipy', scipy.__version__)"
mkdir -p evidence replays/found
