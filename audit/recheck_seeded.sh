#!/bin/bash
# Final regression of sensitivity (not a registered check): every kept seeded change under seeded/<name>/patch.diff is applied to
# a scratch copy of /repo and the quick check of the property in its name is run against it (VERIF_REPO=<scratch>).
# usage: audit/recheck_seeded.sh [pattern] > audit/SEEDED_RECHECK.txt
cd "$(dirname "$0")/.."
pat=${1:-}
for d in seeded/*${pat}*/; do
  name=$(basename "$d"); id=$(echo "$name" | cut -d- -f1)
  [ -f "$d/patch.diff" ] || continue
  scratch=$(mktemp -d /tmp/vf_recheck_XXXXXX)
  rsync -a --exclude .git --exclude '*.pyc' --exclude __pycache__ /repo/ "$scratch/"
  if ! (cd "$scratch" && patch -p1 -s < "$OLDPWD/$d/patch.diff" > /dev/null 2>&1); then echo "$name | PATCH-FAILED"; rm -rf "$scratch"; continue; fi
  out=$(VERIF_REPO="$scratch" ./check "$id" --tier quick 2>&1); rc=$?
  echo "$name | $id exit=$rc | $(echo "$out" | grep -m1 -E '^shard|^replay ' | cut -c1-150)"
  rm -rf "$scratch"
  find replays/found -name '*.json' -delete 2>/dev/null
done
