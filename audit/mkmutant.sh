#!/bin/bash
# usage: audit/mkmutant.sh <name> <file relative to repo root> <old text> <new text>   (first occurrence replaced)
name=$1; file=$2
rm -rf /tmp/mk_m && mkdir -p /tmp/mk_m/a /tmp/mk_m/b && cp -r /repo/graphslam /tmp/mk_m/a/ && cp -r /repo/graphslam /tmp/mk_m/b/ && OLD="$3" NEW="$4" /venv/bin/python -c "
import os
p='/tmp/mk_m/b/$file'; s=open(p).read(); old=os.environ['OLD']; new=os.environ['NEW']
assert s.count(old)>=1, 'pattern not found: '+old[:60]
s=s.replace(old,new,1); open(p,'w').write(s)" && (cd /tmp/mk_m && diff -ru a/$file b/$file > /verif/audit/mutants/$name.patch); rm -rf /tmp/mk_m; echo "$name: $(grep -c '^[-+][^-+]' /verif/audit/mutants/$name.patch) changed lines"
