#!/bin/bash
# Round 2 variant of verify_seed.sh: also runs the property's own check from an older snapshot of /verif
# (VERIF_OLD, a git worktree of /verif as committed before the round-2 changes were seen) to record the "first run" result.
# usage: audit/verify_seed2.sh <out-dir> <k> <name> <ID> [<ID>...]     (first ID = the property's own check)
set -u
out=$(realpath "$1"); k=$2; name=$3; shift 3
cd "$(dirname "$0")/.."
dest=seeded/$name
mkdir -p "$dest"
cp "$out/patch$k.diff" "$dest/patch.diff"; cp "$out/demo$k.py" "$dest/demo.py"; cp "$out/meta$k.txt" "$dest/meta.txt" 2>/dev/null
log="$dest/verification.log"; : > "$log"
scratch=$(mktemp -d /tmp/vf_seed_XXXXXX)
trap 'rm -rf "$scratch"' EXIT
rsync -a --exclude .git --exclude '*.pyc' --exclude __pycache__ --exclude out /repo/ "$scratch/"
mkdir -p "$scratch/out"; cp "$dest/demo.py" "$scratch/out/demo.py"
echo "== demo on unchanged tree" | tee -a "$log"
(cd "$scratch" && PYTHONDONTWRITEBYTECODE=1 timeout 900 /venv/bin/python out/demo.py > "$scratch/demo0.txt" 2>&1); rc0=$?
tail -3 "$scratch/demo0.txt" | cut -c1-300 >> "$log"; echo "exit=$rc0" | tee -a "$log"
if ! (cd "$scratch" && patch -p1 -s < "$OLDPWD/$dest/patch.diff" >> "$OLDPWD/$log" 2>&1); then echo "PATCH-FAILED" | tee -a "$log"; exit 3; fi
echo "== suite with the change" | tee -a "$log"
(cd "$scratch" && PYTHONDONTWRITEBYTECODE=1 /venv/bin/python -m pytest -q -p no:cacheprovider -n 4 tests 2>&1 | tail -1) | tee -a "$log"
echo "== demo with the change" | tee -a "$log"
(cd "$scratch" && PYTHONDONTWRITEBYTECODE=1 timeout 900 /venv/bin/python out/demo.py > "$scratch/demo1.txt" 2>&1); rc1=$?
tail -3 "$scratch/demo1.txt" | cut -c1-300 >> "$log"; echo "exit=$rc1" | tee -a "$log"
if [ -n "${VERIF_OLD:-}" ]; then
  echo "== first run: own check as committed before this change was seen ($(git -C "$VERIF_OLD" log -1 --format=%h))" | tee -a "$log"
  o=$(cd "$VERIF_OLD" && VERIF_REPO="$scratch" ./check "$1" --tier quick 2>&1); rc=$?
  echo "FIRST $1 exit=$rc $(echo "$o" | grep -m1 -E '^shard|^replay ' | cut -c1-220)" | tee -a "$log"
fi
echo "== checks against the changed tree" | tee -a "$log"
for id in "$@"; do
  o=$(VERIF_REPO="$scratch" ./check "$id" --tier quick 2>&1); rc=$?
  echo "$id exit=$rc $(echo "$o" | grep -m1 -E '^shard|^replay ' | cut -c1-220)" | tee -a "$log"
done
