#!/bin/bash
# Sensitivity helper (not a registered check): run quick checks against a scratch copy of /repo with one patch applied.
# usage: audit/try_patch.sh <patch> <ID> [<ID>...]      (scratch copy lives under /tmp and is removed afterwards)
set -u
patch=$(realpath "$1"); shift
cd "$(dirname "$0")/.."
scratch=$(mktemp -d /tmp/vf_try_XXXXXX)
trap 'rm -rf "$scratch"; find replays/found -name "*.json" -delete 2>/dev/null' EXIT
rsync -a --exclude .git --exclude __pycache__ --exclude '*.pyc' /repo/ "$scratch/"
(cd "$scratch" && patch -p1 -s < "$patch") || { echo PATCH-FAILED; exit 3; }
for c in "$@"; do
  VERIF_REPO="$scratch" ./check "$c" --tier quick --no-replays 2>&1 | grep -E "^shard|^C[0-9]+ quick|HARNESS" | head -2 | cut -c1-330
done
