#!/usr/bin/env python3
"""Systematic first-order mutation sweep over graphslam/ (sensitivity audit; not a registered check).

For a sample of AST mutants (arithmetic operator swaps, comparison / boolean flips, numeric constant tweaks, index
shifts, sin<->cos, dropped unary minus, augmented-assignment -> assignment) the mutated tree is written to a scratch
directory outside /repo and /verif, every quick check is run against it with a reduced budget (VERIF_REPO=<scratch>),
and the outcome is appended to audit/mutsweep.jsonl.  Survivors (no check fires) are then run against the repository's
own test suite: a survivor that also passes the suite is either an equivalent mutant or a blind spot to look at.

usage: audit/mutgen.py --n 200 --seed 1 [--examples 60] [--files graphslam/pose/se3.py ...]
"""
import argparse
import ast
import copy
import json
import os
import random
import shutil
import subprocess
import sys
import tempfile
import time

REPO = "/repo"
VERIF = os.path.dirname(os.path.dirname(os.path.abspath(__file__)))
FILES = [
    "graphslam/graph.py",
    "graphslam/vertex.py",
    "graphslam/util.py",
    "graphslam/g2o_parameters.py",
    "graphslam/load.py",
    "graphslam/edge/base_edge.py",
    "graphslam/edge/edge_odometry.py",
    "graphslam/edge/edge_landmark.py",
    "graphslam/pose/base_pose.py",
    "graphslam/pose/r2.py",
    "graphslam/pose/r3.py",
    "graphslam/pose/se2.py",
    "graphslam/pose/se3.py",
]
SKIP_FUNCS = {"plot", "__str__"}
ALL = ["C%02d" % i for i in range(1, 19)]


class Collector(ast.NodeVisitor):
    """Collect (node path, mutation kind, payload) candidates."""

    def __init__(self):
        self.cands = []
        self.stack = []

    def visit_FunctionDef(self, node):
        if node.name in SKIP_FUNCS:
            return
        self.stack.append(node.name)
        self.generic_visit(node)
        self.stack.pop()

    def generic_visit(self, node):
        fn = ".".join(self.stack) or "<module>"
        if isinstance(node, ast.BinOp):
            swaps = {ast.Add: ast.Sub, ast.Sub: ast.Add, ast.Mult: ast.Div, ast.Div: ast.Mult}
            if type(node.op) in swaps and not (isinstance(node.op, ast.Mod)):
                self.cands.append((node, "binop", swaps[type(node.op)], fn))
        elif isinstance(node, ast.Compare) and len(node.ops) == 1:
            flips = {ast.Lt: ast.LtE, ast.LtE: ast.Lt, ast.Gt: ast.GtE, ast.GtE: ast.Gt, ast.Eq: ast.NotEq, ast.NotEq: ast.Eq, ast.Is: ast.IsNot, ast.IsNot: ast.Is}
            if type(node.ops[0]) in flips:
                self.cands.append((node, "compare", flips[type(node.ops[0])], fn))
        elif isinstance(node, ast.BoolOp):
            self.cands.append((node, "boolop", ast.Or if isinstance(node.op, ast.And) else ast.And, fn))
        elif isinstance(node, ast.Constant) and isinstance(node.value, (int, float)) and not isinstance(node.value, bool):
            for new in self._const_variants(node.value):
                self.cands.append((node, "const", new, fn))
        elif isinstance(node, ast.UnaryOp) and isinstance(node.op, ast.USub):
            self.cands.append((node, "dropneg", None, fn))
        elif isinstance(node, ast.UnaryOp) and isinstance(node.op, ast.Not):
            self.cands.append((node, "dropnot", None, fn))
        elif isinstance(node, ast.Attribute) and node.attr in ("cos", "sin"):
            self.cands.append((node, "trig", "sin" if node.attr == "cos" else "cos", fn))
        elif isinstance(node, ast.AugAssign):
            self.cands.append((node, "augassign", None, fn))
        elif isinstance(node, ast.Return) and node.value is not None and isinstance(node.value, ast.Constant) and isinstance(node.value.value, bool):
            self.cands.append((node, "retbool", not node.value.value, fn))
        super().generic_visit(node)

    @staticmethod
    def _const_variants(v):
        if isinstance(v, int):
            return [v + 1, v - 1] if abs(v) < 10 else [v + 1]
        if v == 0.0:
            return [1e-9]
        return [v * (1 + 1e-7), -v, v * 2.0]


def mutate(src, index):
    tree = ast.parse(src)
    col = Collector()
    col.visit(tree)
    node, kind, payload, fn = col.cands[index]
    desc = "%s@%s:line%d" % (kind, fn, getattr(node, "lineno", 0))
    if kind == "binop":
        node.op = payload()
    elif kind == "compare":
        node.ops = [payload()]
    elif kind == "boolop":
        node.op = payload()
    elif kind == "const":
        desc += " %r->%r" % (node.value, payload)
        node.value = payload
    elif kind in ("dropneg", "dropnot"):
        # replace the unary node by its operand: done by mutating in place into a no-op UAdd / double not
        if kind == "dropneg":
            node.op = ast.UAdd()
        else:
            inner = node.operand
            node.operand = ast.UnaryOp(op=ast.Not(), operand=inner)
    elif kind == "trig":
        node.attr = payload
    elif kind == "augassign":
        new = ast.Assign(targets=[node.target], value=node.value)
        for f in ("lineno", "col_offset", "end_lineno", "end_col_offset"):
            setattr(new, f, getattr(node, f, 0))
        # find parent and replace
        for parent in ast.walk(tree):
            for field, value in ast.iter_fields(parent):
                if isinstance(value, list) and node in value:
                    value[value.index(node)] = new
    elif kind == "retbool":
        node.value.value = payload
    ast.fix_missing_locations(tree)
    return ast.unparse(tree), desc


def count(src):
    col = Collector()
    col.visit(ast.parse(src))
    return len(col.cands)


PRIORITY = {
    "graphslam/pose": ["C09", "C10", "C01", "C11", "C02", "C17"],
    "graphslam/edge/edge_odometry.py": ["C01", "C02", "C14", "C13", "C18", "C08", "C03"],
    "graphslam/edge/edge_landmark.py": ["C01", "C02", "C14", "C13", "C18", "C17", "C03"],
    "graphslam/edge/base_edge.py": ["C02", "C03", "C16", "C17", "C15", "C18"],
    "graphslam/graph.py": ["C03", "C12", "C06", "C14", "C13", "C17", "C18", "C04", "C05"],
    "graphslam/vertex.py": ["C14", "C13", "C17", "C06"],
    "graphslam/util.py": ["C11", "C14", "C13"],
    "graphslam/g2o_parameters.py": ["C14", "C13"],
}


def order_for(f, ids):
    pri = []
    for k, v in PRIORITY.items():
        if f.startswith(k):
            pri = [c for c in v if c in ids]
    return pri + [c for c in ids if c not in pri]


def run_checks(scratch, examples, ids, stop_at_first=True):
    fired = {}
    for cid in ids:
        if fired and stop_at_first:
            break
        env = dict(os.environ, VERIF_REPO=scratch)
        try:
            p = subprocess.run([os.path.join(VERIF, "check"), cid, "--tier", "quick", "--examples", str(examples)], env=env, capture_output=True, text=True, timeout=900)
            rc = p.returncode
            first = next((l for l in p.stdout.splitlines() if l.startswith(("shard", "replay "))), "")[:200]
        except subprocess.TimeoutExpired:
            rc, first = 99, "timeout"
        if rc != 0:
            fired[cid] = {"exit": rc, "first": first}
    return fired


def run_suite(scratch):
    p = subprocess.run(["/venv/bin/python", "-m", "pytest", "-q", "-x", "-p", "no:cacheprovider", "-n", "6", "tests"], cwd=scratch, capture_output=True, text=True, env=dict(os.environ, PYTHONDONTWRITEBYTECODE="1"))
    tail = p.stdout.strip().splitlines()[-1] if p.stdout.strip() else ""
    return p.returncode == 0, tail


def main():
    ap = argparse.ArgumentParser()
    ap.add_argument("--n", type=int, default=100)
    ap.add_argument("--seed", type=int, default=1)
    ap.add_argument("--examples", type=int, default=60)
    ap.add_argument("--files", nargs="*", default=FILES)
    ap.add_argument("--out", default=os.path.join(VERIF, "audit", "mutsweep.jsonl"))
    ap.add_argument("--checks", nargs="*", default=ALL)
    args = ap.parse_args()
    rnd = random.Random(args.seed)
    pool = []
    for f in args.files:
        src = open(os.path.join(REPO, f)).read()
        idx = list(range(count(src)))
        rnd.shuffle(idx)
        pool.append([(f, i) for i in idx])
    # round-robin over the files so that the big pose files do not crowd out the small ones
    merged = []
    while any(pool):
        for lst in pool:
            if lst:
                merged.append(lst.pop())
                if len(lst) > 400:  # large files contribute more candidates per round
                    merged.append(lst.pop())
                    merged.append(lst.pop())
    pool = merged
    done = set()
    if os.path.exists(args.out):
        for l in open(args.out):
            try:
                r = json.loads(l)
                done.add((r["file"], r["index"]))
            except Exception:  # noqa: BLE001
                pass
    print("candidates: %d, already done: %d" % (len(pool), len(done)), flush=True)
    n = 0
    for f, i in pool:
        if n >= args.n:
            break
        if (f, i) in done:
            continue
        n += 1
        src = open(os.path.join(REPO, f)).read()
        try:
            new_src, desc = mutate(src, i)
        except Exception as exc:  # noqa: BLE001
            print("skip", f, i, exc)
            continue
        scratch = tempfile.mkdtemp(prefix="vf_mut_")
        try:
            subprocess.run(["rsync", "-a", "--exclude", ".git", "--exclude", "__pycache__", "--exclude", "*.pyc", REPO + "/", scratch + "/"], check=True)
            open(os.path.join(scratch, f), "w").write(new_src)
            # sanity: the mutated module must import
            imp = subprocess.run(["/venv/bin/python", "-c", "import sys; sys.path.insert(0, %r); import graphslam.graph, graphslam.load" % scratch], capture_output=True, text=True)
            t0 = time.time()
            rec = {"file": f, "index": i, "mutation": desc, "imports": imp.returncode == 0}
            if imp.returncode == 0:
                fired = run_checks(scratch, args.examples, order_for(f, args.checks))
                rec["fired"] = fired
                rec["caught"] = bool(fired)
                if not fired:
                    ok, tail = run_suite(scratch)
                    rec["suite_passes"] = ok
                    rec["suite_tail"] = tail
            rec["wall_s"] = round(time.time() - t0, 1)
            with open(args.out, "a") as fh:
                fh.write(json.dumps(rec) + "\n")
            print("%s #%d %s -> %s" % (f, i, desc, ("caught by " + ",".join(sorted(rec.get("fired", {}))) + " (first of the priority order)") if rec.get("caught") else ("SURVIVED suite_passes=%s" % rec.get("suite_passes"))), flush=True)
        finally:
            shutil.rmtree(scratch, ignore_errors=True)


if __name__ == "__main__":
    main()
