#!/bin/bash
# Sensitivity audit over all mutants in audit/mutants (not a registered check).
# For each mutant: the repository's own suite must PASS (else the mutant is not the kind of change this is about),
# the quick check of the property in the mutant's name must exit 1 with a VIOLATION line.
# usage: audit/run_audit.sh [pattern]   -> appends to audit/RESULTS.txt
cd "$(dirname "$0")/.."
pat=${1:-}
for p in audit/mutants/*${pat}*.patch; do
  id=$(basename "$p" | cut -d- -f1)
  scratch=$(mktemp -d /tmp/vf_audit_XXXXXX)
  rsync -a --exclude .git --exclude '*.pyc' --exclude __pycache__ /repo/ "$scratch/"
  if ! (cd "$scratch" && patch -p1 -s < "$OLDPWD/$p"); then echo "$(basename $p) PATCH-FAILED"; rm -rf "$scratch"; continue; fi
  suite=$(cd "$scratch" && PYTHONDONTWRITEBYTECODE=1 /venv/bin/python -m pytest -q -p no:cacheprovider -n 4 tests 2>&1 | tail -1)
  out=$(VERIF_REPO="$scratch" ./check "$id" --tier quick 2>&1); rc=$?
  echo "$(basename $p) | suite: $suite | $id exit=$rc | $(echo "$out" | grep -m1 -E '^shard|^replay ' | cut -c1-160)"
  rm -rf "$scratch"
done
