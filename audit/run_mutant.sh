#!/bin/bash
# Sensitivity audit helper (not a registered check).
# usage: audit/run_mutant.sh <patch> [--suite] <ID> [<ID> ...]
# Copies /repo to a scratch dir outside /repo and /verif, applies the patch, optionally runs the repository's
# own test suite (the mutant must PASS it), runs the given quick checks against the scratch tree, cleans up.
set -u
patch=$(realpath "$1"); shift
suite=0
if [ "${1:-}" = "--suite" ]; then suite=1; shift; fi
scratch=$(mktemp -d /tmp/vf_audit_XXXXXX)
trap 'rm -rf "$scratch"' EXIT
rsync -a --exclude .git --exclude '*.pyc' --exclude __pycache__ /repo/ "$scratch/"
if ! (cd "$scratch" && patch -p1 -s < "$patch"); then echo "PATCH-FAILED $patch"; exit 3; fi
if [ $suite = 1 ]; then
  (cd "$scratch" && PYTHONDONTWRITEBYTECODE=1 /venv/bin/python -m pytest -q -x -p no:cacheprovider -n 8 tests 2>&1 | tail -3)
fi
cd /verif
for id in "$@"; do
  out=$(VERIF_REPO="$scratch" ./check "$id" --tier quick 2>&1); rc=$?
  echo "$(basename "$patch") $id exit=$rc $(echo "$out" | grep -m1 '^shard\|^replay ' | cut -c1-200)"
done
