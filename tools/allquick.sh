#!/bin/bash
# Run every registered quick check at the given seeds; print one line per (seed, check). Not a registered check.
# usage: tools/allquick.sh [tier] seed...
cd "$(dirname "$0")/.."
tier=quick
if [ "$1" = "quick" ] || [ "$1" = "thorough" ]; then tier=$1; shift; fi
for seed in "$@"; do
  for id in C01 C02 C03 C04 C05 C06 C07 C08 C09 C10 C11 C12 C13 C14 C15 C16 C17 C18; do
    out=$(VERIF_SEED=$seed ./check $id --tier $tier 2>&1); rc=$?
    echo "seed=$seed $id exit=$rc $(echo "$out" | grep -E "^C[0-9]+ (quick|thorough)" | tail -1) $(echo "$out" | grep -m1 -E '^shard|HARNESS' | cut -c1-220)"
  done
done
