#!/usr/bin/env python3
"""Validate MANIFEST.json and every evidence file against the schemas (run with python3-vt)."""
import glob, json, sys
import jsonschema
ok = True
m = json.load(open('/verif/MANIFEST.json'))
jsonschema.validate(m, json.load(open('/root/.vp/MANIFEST.schema.json')))
es = json.load(open('/root/.vp/EVIDENCE.schema.json'))
for c in m['checks']:
    p = c['evidence_file']
    try:
        jsonschema.validate(json.load(open(p)), es)
    except Exception as e:
        ok = False
        print('INVALID', p, str(e).splitlines()[0])
claimed = {c['property_id'] for c in m['checks']}
na = {c['property_id'] for c in m.get('not_applicable', [])}
allp = {json.loads(l)['id'] for l in open('/verif/properties.jsonl')}
if claimed | na != allp or claimed & na:
    ok = False
    print('claimed/not_applicable do not partition the properties', sorted(allp - claimed - na), sorted(claimed & na))
print('manifest ok; %d checks; evidence %s' % (len(claimed), 'ok' if ok else 'HAS PROBLEMS'))
sys.exit(0 if ok else 1)
