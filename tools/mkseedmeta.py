#!/usr/bin/env python3
"""Build seeded/<name>/meta.json from the author's meta.txt and my verification.log (audit/verify_seed.sh)."""
import json, os, re, sys
root = os.path.join(os.path.dirname(os.path.abspath(__file__)), "..", "seeded")
rows = []
for name in sorted(os.listdir(root)):
    d = os.path.join(root, name)
    log = os.path.join(d, "verification.log")
    if not os.path.isfile(log):
        continue
    txt = open(log).read()
    meta_txt = open(os.path.join(d, "meta.txt")).read() if os.path.exists(os.path.join(d, "meta.txt")) else ""
    m = re.search(r"== demo on unchanged tree\n(?:.*\n)*?exit=(\d+)", txt)
    demo0 = int(m.group(1)) if m else None
    m = re.search(r"== demo with the change\n(?:.*\n)*?exit=(\d+)", txt)
    demo1 = int(m.group(1)) if m else None
    m = re.search(r"== suite with the change\n(.*)", txt)
    suite = m.group(1).strip() if m else None
    checks = {}
    for cm in re.finditer(r"^(C\d\d) exit=(\d+) ?(.*)$", txt, re.M):
        checks[cm.group(1)] = {"exit": int(cm.group(2)), "first_report": cm.group(3)[:200]}
    prop = name.split("-")[0]
    fm = re.search(r"^FIRST (C\d\d) exit=(\d+) ?(.*)$", txt, re.M)
    first = {"check": fm.group(1), "exit": int(fm.group(2)), "first_report": fm.group(3)[:200]} if fm else None
    meta = {
        "property_broken": prop,
        "author": "independent sub-agent given only the property text and a scratch worktree of /repo (nothing from /verif)",
        "description_and_what_it_needs_to_manifest": meta_txt.strip(),
        "confirmed_by_me": {
            "applies_to": "scratch copy of /repo HEAD (rsync, outside /repo and /verif; removed afterwards)",
            "existing_suite_with_change": suite,
            "demo_exit_on_unchanged_tree": demo0,
            "demo_exit_with_change": demo1,
            "kept": bool(suite and suite.startswith("189 passed") and demo0 == 0 and demo1 not in (0, None)),
        },
        "checks_run_against_it": checks,
        "caught_by": sorted(k for k, v in checks.items() if v["exit"] == 1),
        "own_check_catches": checks.get(prop, {}).get("exit") == 1,
        "own_check_first_run_before_this_change_was_seen": first,
        "how_run": "audit/verify_seed.sh <author's out dir> <k> %s <IDs>: VERIF_REPO=<scratch> ./check <ID> --tier quick" % name,
    }
    json.dump(meta, open(os.path.join(d, "meta.json"), "w"), indent=1)
    rows.append((name, meta["confirmed_by_me"]["kept"], meta["own_check_catches"], ("-" if first is None else str(first["exit"] == 1)), ",".join(meta["caught_by"])))
for r in rows:
    print("%-62s kept=%-5s own=%-5s first=%-5s caught_by=%s" % r)
