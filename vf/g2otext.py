"""Grammar-based generator of .g2o text with its expected contents (the independent model of the file), used by C14 / C13.

A generated file is a list of line records.  Each record has the rendered text and - for recognised lines - the expected
object written from the format description:
  VERTEX_XY id x y | VERTEX_TRACKXYZ id x y z | VERTEX_SE2 id x y th | VERTEX_SE3:QUAT id x y z qx qy qz qw
  EDGE_SE2 i j x y th I11 I12 I13 I22 I23 I33                      (row-major upper triangle)
  EDGE_SE3:QUAT i j x y z qx qy qz qw + 21 upper-triangular entries
  EDGE_SE2_XY i j x y I11 I12 I22
  EDGE_SE3_TRACKXYZ i j param x y z I11 I12 I13 I22 I23 I33
  PARAMS_SE2OFFSET id x y th | PARAMS_SE3OFFSET id x y z qx qy qz qw
  EDGE_VF_DIST i j d I11            (registered custom edge type, 2 ids + scalar + 1x1 information)
  EDGE_VF_TRI i j k x y [z] + upper triangle   (registered custom edge type, 3 ids)
The numeric value of every token is known from generation (formats are exact round-trip formats or literals with known
values), so the expectation does not come from re-parsing the text.
"""
import math

import numpy as np

from . import env  # noqa: F401
from graphslam.edge.base_edge import BaseEdge
from graphslam.edge.edge_odometry import EdgeOdometry
from graphslam.util import upper_triangular_matrix_to_full_matrix

SPECIAL_LITERALS = [(".5", 0.5), ("5.", 5.0), ("1E3", 1000.0), ("-.25", -0.25), ("+2", 2.0), ("1e-3", 0.001), ("0", 0.0), ("-0", -0.0), ("00.5", 0.5), ("2.5e+0", 2.5), ("-1E-2", -0.01), ("7", 7.0), ("-3", -3.0), ("1e0", 1.0), ("1.e-3", 0.001), ("-7.", -7.0), ("+.5E1", 5.0), ("3.E2", 300.0)]


# ----------------------------------------------------------------------------- registered custom edge types
class EdgeVfDist(BaseEdge):
    """Distance between two vertices' positions (custom, .g2o-capable)."""

    TAGNAME = "EDGE_VF_DIST"

    def is_valid(self):
        return self._is_valid() and len(self.vertices) == 2

    def calc_error(self):
        return np.array([np.linalg.norm(self.vertices[1].pose.position - self.vertices[0].pose.position) - self.estimate])

    def to_g2o(self):
        return "EDGE_VF_DIST {} {} {} {}\n".format(self.vertex_ids[0], self.vertex_ids[1], self.estimate, self.information[0, 0])

    @classmethod
    def from_g2o(cls, line, g2o_params_or_none=None):
        if line.startswith("EDGE_VF_DIST "):
            t = line[len("EDGE_VF_DIST "):].split()
            return cls([int(t[0]), int(t[1])], np.array([[float(t[3])]]), float(t[2]))
        return None


class EdgeVfTri(BaseEdge):
    """Ternary constraint on positions: p2 - (p0 + p1)/2 = z (custom, .g2o-capable)."""

    TAGNAME = "EDGE_VF_TRI"

    def is_valid(self):
        return self._is_valid() and len(self.vertices) == 3

    def calc_error(self):
        return self.vertices[2].pose.position - 0.5 * (self.vertices[0].pose.position + self.vertices[1].pose.position) - self.estimate

    def to_g2o(self):
        n = len(self.estimate)
        return "EDGE_VF_TRI {} {} {} ".format(*self.vertex_ids) + " ".join(str(x) for x in self.estimate) + " " + " ".join(str(x) for x in self.information[np.triu_indices(n, 0)]) + "\n"

    @classmethod
    def from_g2o(cls, line, g2o_params_or_none=None):
        if line.startswith("EDGE_VF_TRI "):
            t = line[len("EDGE_VF_TRI "):].split()
            nums = [float(x) for x in t[3:]]
            n = 2 if len(nums) == 2 + 3 else 3
            return cls([int(t[0]), int(t[1]), int(t[2])], upper_triangular_matrix_to_full_matrix(np.array(nums[n:]), n), np.array(nums[:n]))
        return None


def claims_se2_line(i, j):
    """Which EDGE_SE2 lines the partial-claim custom type below takes (the others are left to the built-in odometry edge)."""
    return abs(int(i) - int(j)) >= 2 and (int(i) + int(j)) % 3 == 0


class EdgeVfLoopSE2(EdgeOdometry):
    """A custom type that claims only SOME lines of a built-in tag: EDGE_SE2 lines between certain non-consecutive ids are loop
    closures of this class (same numbers, same export); for every other line its from_g2o declines by returning None."""

    @classmethod
    def from_g2o(cls, line, g2o_params_or_none=None):
        if line.startswith("EDGE_SE2 "):
            t = line[len("EDGE_SE2 "):].split()
            if len(t) >= 2 and claims_se2_line(t[0], t[1]):
                e = EdgeOdometry.from_g2o(line, g2o_params_or_none)
                return cls(e.vertex_ids, e.information, e.estimate)
        return None


CUSTOM_TYPES = [EdgeVfDist, EdgeVfTri]
CUSTOM_TYPES_WITH_PARTIAL_CLAIM = [EdgeVfDist, EdgeVfTri, EdgeVfLoopSE2]  # C14 only

JUNK_LINES = [
    "# a comment",
    "#",
    "FIX 0",
    "hello world",
    "VERTEX_SE2_FOO 1 2 3 4",
    "EDGE_SE2XY 0 1 1 1 1 0 1",
    "VERTEX_XYZ 3 0 0 0",
    "vertex_se2 0 0 0 0",
    "EDGE_SE3 0 1 0 0 0 0 0 0 1",
    "VERTEX_SE3 0 0 0 0 0 0 0 1",
    "PARAMS_SE3 0 0 0 0 0 0 0 1",
    "PARAMS_CAMERAPARAMETERS 0 1 1 1",
    "EDGE_SE2_XYZ 0 1 0 0 1 0 1",
    "VERTEX_SE2: 0 0 0 0",
    "EDGE_VF_DISTANCE 0 1 1 1",
    "TAG 1 2 3",
    "% matlab style comment",
    "// c style comment",
    "VERTEX_XYTHETA 0 0 0 0",
    # control characters that are NOT line terminators of a text file (form feed, vertical tab, FS/GS/RS): one line, one warning,
    # and the text after them is not a record of its own
    "# page break\x0cVERTEX_SE2 987654 1 2 3",
    "note\x0bEDGE_SE2 0 1 1 2 3 1 0 0 1 0 1",
    "#\x1cVERTEX_XY 987655 1 2",
    "x\x1dPARAMS_SE2OFFSET 77 0 0 0",
    "x\x1eVERTEX_TRACKXYZ 987656 1 2 3",
]
BLANK_LINES = ["", " ", "   ", "\t", " \t "]


# ----------------------------------------------------------------------------- rendering
def render_number(g, x):
    """(token, value): an exact round-trip rendering of the float x, in a randomly chosen accepted format."""
    rnd = g.rnd
    x = float(x)
    f = rnd.choice(["repr", "repr", "repr", "e17", "g17", "plus", "int", "upper"])
    if f == "repr":
        return repr(x), x
    if f == "e17":
        return "%.17e" % x, x
    if f == "g17":
        return "%.17g" % x, x
    if f == "plus":
        return ("+" + repr(x)) if (x > 0 or (x == 0 and math.copysign(1, x) > 0)) else repr(x), x
    if f == "upper":
        return ("%.17e" % x).upper(), x
    if x == int(x) and abs(x) < 1e15 and not (x == 0 and math.copysign(1, x) < 0):
        return str(int(x)), x
    return repr(x), x


def gen_value(g, cls="moderate"):
    """A float value for a numeric field (value only)."""
    rnd = g.rnd
    r = rnd.random()
    if r < 0.08:
        tok, val = rnd.choice(SPECIAL_LITERALS)
        return val, tok
    if cls == "extreme" and r < 0.3:
        v = rnd.choice([1.0, -1.0]) * 10.0 ** rnd.uniform(-300, 300)
        if rnd.random() < 0.1:
            v = rnd.choice([5e-324, -5e-324, 1.7976931348623157e308, 2.2250738585072014e-308, -1.7976931348623157e308])
        return v, None
    if r < 0.5:
        return rnd.uniform(-10, 10), None
    if r < 0.7:
        return float(rnd.randint(-20, 20)), None
    return rnd.choice([1.0, -1.0]) * 10.0 ** rnd.uniform(-6, 6), None


class FileBuilder:
    def __init__(self, g):
        self.g = g
        self.rnd = g.rnd
        self.used_ids = set()

    def new_id(self):
        rnd = self.rnd
        while True:
            c = rnd.random()
            if c < 0.6:
                v = rnd.randint(0, 40)
            elif c < 0.8:
                v = rnd.randint(-1000, 1000)
            else:
                v = rnd.choice([1, -1]) * rnd.randint(2**40, 2**70)
            if v not in self.used_ids:
                self.used_ids.add(v)
                return v

    def id_token(self, v):
        if v >= 0 and self.rnd.random() < 0.1:
            return "+%d" % v
        return "%d" % v

    def numbers(self, n, cls="moderate"):
        """n (token, value) pairs."""
        out = []
        for _ in range(n):
            val, tok = gen_value(self.g, cls)
            if tok is None:
                tok, val = render_number(self.g, val)
            out.append((tok, val))
        return out

    def angle(self):
        g = self.g
        val = g.angle(big=self.rnd.random() < 0.3)
        return render_number(g, val)

    def quat(self, unit=True):
        g = self.g
        q = g.unit_quat()
        if not unit:
            s = 10.0 ** self.rnd.uniform(-3, 3)
            q = [x * s for x in q]
        return [render_number(g, x) for x in q]

    def upper_triangle(self, n):
        """tokens/values of the row-major upper triangle of a symmetric information matrix + the full matrix."""
        g = self.g
        kind = self.rnd.choice(["spd", "spd", "diag", "ident", "arbitrary"])
        if kind == "arbitrary":
            M = np.array([[gen_value(g)[0] for _ in range(n)] for _ in range(n)])
            M = np.triu(M) + np.triu(M, 1).T
        else:
            M = np.array(g.sym_matrix(n, max_cond=1e4, kind=kind))
        toks = []
        for i in range(n):
            for j in range(i, n):
                toks.append(render_number(g, M[i, j]))
        full = [[float(M[min(i, j), max(i, j)]) for j in range(n)] for i in range(n)]
        return toks, full

    def join(self, tag, tokens):
        """tag + ' ' + fields separated by 1..4 spaces (the tag is followed by at least one space)."""
        rnd = self.rnd
        s = tag
        for t in tokens:
            s += " " * rnd.choice([1, 1, 1, 2, 3, 4]) + t
        if rnd.random() < 0.2:
            s += " " * rnd.randint(1, 3)
        return s


def gen_file(g, allow_custom=True, allow_junk=True, extreme=True, dims=None):
    """Returns a materialised file case: {'records': [...], 'eols': [...]}."""
    rnd = g.rnd
    fb = FileBuilder(g)
    if dims is None:
        dims = g.choice(["2d", "3d", "both"])
    recs_v, recs_p, recs_e = [], [], []
    verts = {"se2": [], "r2": [], "se3": [], "r3": []}
    cls = "extreme" if (extreme and g.boolean()) else "moderate"

    def add_vertex(kind):
        vid = fb.new_id()
        if kind == "r2":
            nums = fb.numbers(2, cls)
            tag = "VERTEX_XY"
        elif kind == "r3":
            nums = fb.numbers(3, cls)
            tag = "VERTEX_TRACKXYZ"
        elif kind == "se2":
            nums = fb.numbers(2, cls) + [fb.angle()]
            tag = "VERTEX_SE2"
        else:
            nums = fb.numbers(3, cls) + fb.quat(unit=rnd.random() < 0.8)
            tag = "VERTEX_SE3:QUAT"
        text = fb.join(tag, [fb.id_token(vid)] + [t for t, _ in nums])
        recs_v.append({"kind": "vertex", "pk": kind, "id": vid, "vals": [v for _, v in nums], "text": text})
        verts[kind].append(vid)

    kinds2 = ["se2", "r2"] if dims in ("2d", "both") else []
    kinds3 = ["se3", "r3"] if dims in ("3d", "both") else []
    for k in kinds2 + kinds3:
        for _ in range(g.integer(1 if k in ("se2", "se3") else 0, 4)):
            add_vertex(k)

    # parameters
    params3 = []
    if kinds3:
        for _ in range(g.integer(1, 3)):
            pid = rnd.choice([0, 0, 1, rnd.randint(0, 50)]) if rnd.random() < 0.8 else rnd.randint(-100, 10**6)
            if pid in [p["id"] for p in params3]:
                continue
            nums = fb.numbers(3) + fb.quat(unit=True)
            text = fb.join("PARAMS_SE3OFFSET", [fb.id_token(pid)] + [t for t, _ in nums])
            rec = {"kind": "param", "pt": "PARAMS_SE3OFFSET", "id": pid, "vals": [v for _, v in nums], "text": text}
            params3.append(rec)
            recs_p.append(rec)
    used2 = set()
    if rnd.random() < 0.4:
        for _ in range(rnd.randint(1, 2)):
            pid = rnd.choice([0, 0, 0, 1, 2, rnd.randint(0, 50)])
            if pid in used2:
                continue
            used2.add(pid)
            nums = fb.numbers(2) + [fb.angle()]
            text = fb.join("PARAMS_SE2OFFSET", [fb.id_token(pid)] + [t for t, _ in nums])
            recs_p.append({"kind": "param", "pt": "PARAMS_SE2OFFSET", "id": pid, "vals": [v for _, v in nums], "text": text})

    # edges
    def add_edge(et):
        if et == "EDGE_SE2" and len(verts["se2"]) >= 2:
            i, j = rnd.sample(verts["se2"], 2)
            nums = fb.numbers(2) + [fb.angle()]
            ut, full = fb.upper_triangle(3)
            text = fb.join(et, [fb.id_token(i), fb.id_token(j)] + [t for t, _ in nums] + [t for t, _ in ut])
            recs_e.append({"kind": "edge", "et": et, "ids": [i, j], "z": [v for _, v in nums], "info": full, "text": text, "needs": None})
        elif et == "EDGE_SE3:QUAT" and len(verts["se3"]) >= 2:
            i, j = rnd.sample(verts["se3"], 2)
            nums = fb.numbers(3) + fb.quat(unit=rnd.random() < 0.5)
            ut, full = fb.upper_triangle(6)
            text = fb.join(et, [fb.id_token(i), fb.id_token(j)] + [t for t, _ in nums] + [t for t, _ in ut])
            recs_e.append({"kind": "edge", "et": et, "ids": [i, j], "z": [v for _, v in nums], "info": full, "text": text, "needs": None})
        elif et == "EDGE_SE2_XY" and verts["se2"] and verts["r2"]:
            i, j = rnd.choice(verts["se2"]), rnd.choice(verts["r2"])
            nums = fb.numbers(2)
            ut, full = fb.upper_triangle(2)
            text = fb.join(et, [fb.id_token(i), fb.id_token(j)] + [t for t, _ in nums] + [t for t, _ in ut])
            recs_e.append({"kind": "edge", "et": et, "ids": [i, j], "z": [v for _, v in nums], "info": full, "text": text, "needs": None})
        elif et == "EDGE_SE3_TRACKXYZ" and verts["se3"] and verts["r3"] and params3:
            i, j = rnd.choice(verts["se3"]), rnd.choice(verts["r3"])
            p = rnd.choice(params3)
            nums = fb.numbers(3)
            ut, full = fb.upper_triangle(3)
            text = fb.join(et, [fb.id_token(i), fb.id_token(j), fb.id_token(p["id"])] + [t for t, _ in nums] + [t for t, _ in ut])
            recs_e.append({"kind": "edge", "et": et, "ids": [i, j], "z": [v for _, v in nums], "info": full, "text": text, "needs": p["id"], "off": p["vals"]})
        elif et == "EDGE_VF_DIST":
            allv = [(k, v) for k in verts for v in verts[k]]
            if len(allv) >= 2:
                (ka, a), (kb, b) = rnd.sample(allv, 2)
                if {"se2": 2, "r2": 2, "se3": 3, "r3": 3}[ka] == {"se2": 2, "r2": 2, "se3": 3, "r3": 3}[kb]:
                    nums = fb.numbers(2)
                    text = fb.join(et, [fb.id_token(a), fb.id_token(b)] + [t for t, _ in nums])
                    recs_e.append({"kind": "edge", "et": et, "ids": [a, b], "z": [nums[0][1]], "info": [[nums[1][1]]], "text": text, "needs": None})
        elif et == "EDGE_VF_TRI":
            for dim, ks in ((2, ("se2", "r2")), (3, ("se3", "r3"))):
                pool = [v for k in ks for v in verts[k]]
                if len(pool) >= 3 and rnd.random() < 0.7:
                    ids = rnd.sample(pool, 3)
                    nums = fb.numbers(dim)
                    ut, full = fb.upper_triangle(dim)
                    text = fb.join(et, [fb.id_token(x) for x in ids] + [t for t, _ in nums] + [t for t, _ in ut])
                    recs_e.append({"kind": "edge", "et": et, "ids": ids, "z": [v for _, v in nums], "info": full, "text": text, "needs": None})
                    break

    ets = []
    if kinds2:
        ets += ["EDGE_SE2", "EDGE_SE2", "EDGE_SE2_XY"]
    if kinds3:
        ets += ["EDGE_SE3:QUAT", "EDGE_SE3:QUAT", "EDGE_SE3_TRACKXYZ", "EDGE_SE3_TRACKXYZ"]
    if allow_custom:
        ets += ["EDGE_VF_DIST", "EDGE_VF_TRI"]
    for _ in range(g.integer(0, 8)):
        add_edge(rnd.choice(ets))

    # the same measurement listed twice, verbatim: two lines are two edges
    if recs_e and g.choice([False, False, True]):
        for _ in range(rnd.randint(1, 2)):
            recs_e.insert(rnd.randrange(len(recs_e) + 1), dict(rnd.choice(recs_e)))

    # ---- order: any legal order (a parameter precedes the edges that use it; vertices anywhere)
    order_mode = g.choice(["canonical", "shuffled", "shuffled", "vertices-last"])
    if order_mode == "canonical":
        recs = recs_p + recs_v + recs_e
    elif order_mode == "vertices-last":
        recs = recs_p + recs_e + recs_v
    else:
        recs = recs_p + recs_v + recs_e
        rnd.shuffle(recs)
        # repair: move each needed parameter before the first edge that uses it
        pos = {("PARAMS_SE3OFFSET", r["id"]): r for r in recs if r["kind"] == "param" and r["pt"] == "PARAMS_SE3OFFSET"}
        out = []
        emitted = set()
        for r in recs:
            if r["kind"] == "param" and r["pt"] == "PARAMS_SE3OFFSET":
                if r["id"] in emitted:
                    continue
                emitted.add(r["id"])
                out.append(r)
            elif r["kind"] == "edge" and r.get("needs") is not None and r["needs"] not in emitted:
                emitted.add(r["needs"])
                out.append(pos[("PARAMS_SE3OFFSET", r["needs"])])
                out.append(r)
            else:
                out.append(r)
        recs = out

    # ---- junk / blank lines
    if allow_junk and g.boolean():
        out = []
        for r in recs:
            while rnd.random() < 0.25:
                if rnd.random() < 0.5:
                    out.append({"kind": "blank", "text": rnd.choice(BLANK_LINES)})
                else:
                    out.append({"kind": "junk", "text": rnd.choice(JUNK_LINES) + (" " * rnd.randint(0, 2) if rnd.random() < 0.2 else "")})
            out.append(r)
        if rnd.random() < 0.5:
            out.append({"kind": "junk", "text": rnd.choice(JUNK_LINES)})
        recs = out
    eol_mode = g.choice(["lf", "lf", "crlf", "mixed"])
    eols = []
    for _ in recs:
        eols.append("\n" if eol_mode == "lf" else "\r\n" if eol_mode == "crlf" else rnd.choice(["\n", "\r\n"]))
    final_newline = rnd.random() < 0.85
    return {"records": recs, "eols": eols, "final_newline": final_newline, "dims": dims, "order": order_mode, "eol_mode": eol_mode, "value_class": cls}


def file_text(case, only_recognised=False):
    parts = []
    recs = case["records"]
    keep = [(r, e) for r, e in zip(recs, case["eols"]) if not only_recognised or r["kind"] in ("vertex", "edge", "param")]
    for i, (r, e) in enumerate(keep):
        parts.append(r["text"])
        if i < len(keep) - 1 or case["final_newline"]:
            parts.append(e)
    return "".join(parts)
