"""Forward-mode automatic differentiation scalar: value + gradient vector.

Exact up to rounding (no step size, no truncation error).  Used to differentiate
the *reference* model; it never touches graphslam code.
"""
import math

import numpy as np


class Dual:
    __slots__ = ("v", "g")

    def __init__(self, v, g):
        self.v = float(v)
        self.g = g

    def _c(self, o):
        return o if isinstance(o, Dual) else Dual(o, np.zeros_like(self.g))

    def __add__(self, o):
        if isinstance(o, Dual):
            return Dual(self.v + o.v, self.g + o.g)
        return Dual(self.v + o, self.g)

    __radd__ = __add__

    def __sub__(self, o):
        if isinstance(o, Dual):
            return Dual(self.v - o.v, self.g - o.g)
        return Dual(self.v - o, self.g)

    def __rsub__(self, o):
        return Dual(o - self.v, -self.g)

    def __mul__(self, o):
        if isinstance(o, Dual):
            return Dual(self.v * o.v, self.g * o.v + o.g * self.v)
        return Dual(self.v * o, self.g * o)

    __rmul__ = __mul__

    def __truediv__(self, o):
        if isinstance(o, Dual):
            return Dual(self.v / o.v, (self.g * o.v - o.g * self.v) / (o.v * o.v))
        return Dual(self.v / o, self.g / o)

    def __rtruediv__(self, o):
        return Dual(o / self.v, (-o / (self.v * self.v)) * self.g)

    def __neg__(self):
        return Dual(-self.v, -self.g)

    def __pos__(self):
        return self

    def __float__(self):
        return self.v

    def __repr__(self):
        return "Dual(%r, %r)" % (self.v, self.g)


def gsin(x):
    if isinstance(x, Dual):
        return Dual(math.sin(x.v), math.cos(x.v) * x.g)
    return math.sin(x)


def gcos(x):
    if isinstance(x, Dual):
        return Dual(math.cos(x.v), -math.sin(x.v) * x.g)
    return math.cos(x)


def gsqrt(x):
    if isinstance(x, Dual):
        r = math.sqrt(x.v)
        return Dual(r, x.g / (2.0 * r) if r > 0.0 else np.zeros_like(x.g))
    return math.sqrt(x)


def gatan2(y, x):
    if isinstance(y, Dual) or isinstance(x, Dual):
        yv = y.v if isinstance(y, Dual) else y
        xv = x.v if isinstance(x, Dual) else x
        yg = y.g if isinstance(y, Dual) else 0.0
        xg = x.g if isinstance(x, Dual) else 0.0
        n2 = xv * xv + yv * yv
        return Dual(math.atan2(yv, xv), (xv * yg - yv * xg) / n2)
    return math.atan2(y, x)


def val(x):
    return x.v if isinstance(x, Dual) else float(x)


def seeds(n):
    """The n independent perturbation variables delta_k = Dual(0, e_k)."""
    eye = np.eye(n)
    return [Dual(0.0, eye[k].copy()) for k in range(n)]


def jacobian(outputs, n):
    """Stack the gradients of a list of scalars (Dual or float) into a (len, n) matrix."""
    return np.array([o.g if isinstance(o, Dual) else np.zeros(n) for o in outputs], dtype=float).reshape(len(outputs), n)


def values(outputs):
    return np.array([val(o) for o in outputs], dtype=float)
