"""The custom edge family used by C03 / C06 / C12 / C15 / C16, each with a reference twin.

Every class derives from graphslam's public BaseEdge exactly as the repository's own example
(tests/test_custom_edge.py) does.  `*Num` classes define only calc_error (numerical-Jacobian fallback of BaseEdge);
`*Ana` classes add calc_jacobians built from the public pose Jacobian methods; `*Exact` classes (C16) return the
AD Jacobian of the reference twin.

Reference twins: REF[tag](kinds, ops, z) -> list of scalars (float or Dual), ops = list of pose lists.
"""
import numpy as np

from . import env  # noqa: F401
from graphslam.edge.base_edge import BaseEdge

from . import gs, refmodel as R
from .dual import gsqrt, seeds, jacobian, values


class _Base(BaseEdge):
    TAG = None

    def is_valid(self):
        return self._is_valid()


# ----------------------------------------------------------------------------- error functions (real objects)
def _prior_err(self):
    return (self.vertices[0].pose - self.estimate).to_compact()


def _mid_err(self):
    return self.vertices[2].pose.position - 0.5 * (self.vertices[0].pose.position + self.vertices[1].pose.position) - self.estimate


def _relpose_err(self):
    err = self.estimate - (self.vertices[1].pose - self.vertices[0].pose)
    c = err.to_compact()
    if len(err) == 7 and err[6] < 0.0:  # same rotation, representative with w >= 0 (matches the reference twin)
        c[3:] *= -1.0
    return c


def _dist_err(self):
    d = self.vertices[1].pose.position - self.vertices[0].pose.position
    return np.array([np.linalg.norm(d) - self.estimate])


def _range_err(self):
    # range from a pose (any type) to a landmark, measured in the pose frame: |(p^-1 (+) l)|
    q = self.vertices[0].pose.inverse + self.vertices[1].pose
    return np.array([np.linalg.norm(q.position) - self.estimate])


def _eqstep_err(self):
    # equal-step constraint over three vertices: (p1 - p0) position step equals (p2 - p1) position step, world frame
    p0, p1, p2 = (v.pose.position for v in self.vertices)
    return (p2 - p1) - (p1 - p0) - self.estimate


# ----------------------------------------------------------------------------- reference twins
def _ref_prior(kinds, ops, z):
    return R.compact(kinds[0], R.ominus(kinds[0], ops[0], z))


def _pos(kind, p):
    return list(p[: R.PDIM[kind]])


def _ref_mid(kinds, ops, z):
    a, b, c = (_pos(k, p) for k, p in zip(kinds, ops))
    return [c[i] - 0.5 * (a[i] + b[i]) - z[i] for i in range(len(z))]


def _ref_relpose(kinds, ops, z):
    return R.odo_err(kinds[0], ops[0], ops[1], z)


def _ref_dist(kinds, ops, z):
    a, b = _pos(kinds[0], ops[0]), _pos(kinds[1], ops[1])
    n2 = 0.0
    for i in range(len(a)):
        n2 = n2 + (b[i] - a[i]) * (b[i] - a[i])
    return [gsqrt(n2) - z[0]]


def _ref_range(kinds, ops, z):
    q = R.act(kinds[0], R.inv(kinds[0], ops[0]), _pos(kinds[1], ops[1]))
    n2 = 0.0
    for x in q:
        n2 = n2 + x * x
    return [gsqrt(n2) - z[0]]


def _ref_eqstep(kinds, ops, z):
    a, b, c = (_pos(k, p) for k, p in zip(kinds, ops))
    return [(c[i] - b[i]) - (b[i] - a[i]) - z[i] for i in range(len(z))]


REF = {"prior": _ref_prior, "mid": _ref_mid, "relpose": _ref_relpose, "dist": _ref_dist, "range": _ref_range, "eqstep": _ref_eqstep}
ERR = {"prior": _prior_err, "mid": _mid_err, "relpose": _relpose_err, "dist": _dist_err, "range": _range_err, "eqstep": _eqstep_err}
ARITY = {"prior": 1, "mid": 3, "relpose": 2, "dist": 2, "range": 2, "eqstep": 3}


def ref_error_and_jacobians(tag, kinds, ops, z):
    """values, [J_i] by AD of the reference twin w.r.t. the boxplus perturbation of every vertex."""
    cs = [R.CDIM[k] for k in kinds]
    d = seeds(sum(cs))
    q = []
    o = 0
    for k, p, c in zip(kinds, ops, cs):
        q.append(R.boxplus(k, [float(x) for x in p], d[o : o + c]))
        o += c
    out = REF[tag](kinds, q, z)
    J = jacobian(out, sum(cs))
    Js = []
    o = 0
    for c in cs:
        Js.append(J[:, o : o + c])
        o += c
    return values(out), Js


# ----------------------------------------------------------------------------- classes
def _z_list(est):
    if isinstance(est, np.ndarray):
        return [float(x) for x in np.atleast_1d(np.asarray(est))]
    return [float(est)]


def _make(tag, flavour):
    err = ERR[tag]

    def calc_error(self):
        return err(self)

    ns = {"TAG": tag, "FLAVOUR": flavour, "calc_error": calc_error}
    if flavour == "ana":
        if tag == "prior":

            def calc_jacobians(self):
                p = self.vertices[0].pose
                return [np.dot(p.jacobian_self_ominus_other_wrt_self_compact(self.estimate), p.jacobian_boxplus())]

        elif tag == "mid":

            def calc_jacobians(self):
                n = len(self.estimate)
                Js = [np.asarray(v.pose.jacobian_boxplus())[:n, :] for v in self.vertices]
                return [-0.5 * Js[0], -0.5 * Js[1], Js[2]]

        elif tag == "eqstep":

            def calc_jacobians(self):
                n = len(self.estimate)
                Js = [np.asarray(v.pose.jacobian_boxplus())[:n, :] for v in self.vertices]
                return [Js[0], -2.0 * Js[1], Js[2]]

        elif tag == "relpose":

            def calc_jacobians(self):
                p1, p2 = self.vertices[0].pose, self.vertices[1].pose
                A = self.estimate.jacobian_self_ominus_other_wrt_other_compact(p2 - p1)
                err = self.estimate - (p2 - p1)
                if len(err) == 7 and err[6] < 0.0:
                    A = np.vstack([A[:3], -A[3:]])
                return [
                    np.dot(np.dot(A, p2.jacobian_self_ominus_other_wrt_other(p1)), p1.jacobian_boxplus()),
                    np.dot(np.dot(A, p2.jacobian_self_ominus_other_wrt_self(p1)), p2.jacobian_boxplus()),
                ]

        else:
            raise KeyError("no analytic flavour for %s" % tag)
        ns["calc_jacobians"] = calc_jacobians
    elif flavour == "exact":

        def calc_jacobians(self):
            kinds = [gs.kind_of(v.pose) for v in self.vertices]
            ops = [gs.stored(v.pose) for v in self.vertices]
            z = gs.stored(self.estimate) if gs.kind_of(self.estimate) else _z_list(self.estimate)
            _, Js = ref_error_and_jacobians(tag, kinds, ops, z)
            return Js

        ns["calc_jacobians"] = calc_jacobians
    return type("%s_%s" % (tag.capitalize(), flavour), (_Base,), ns)


CLASSES = {}
for _tag in ERR:
    for _fl in ("num", "exact"):
        CLASSES[(_tag, _fl)] = _make(_tag, _fl)
for _tag in ("prior", "mid", "eqstep", "relpose"):
    CLASSES[(_tag, "ana")] = _make(_tag, "ana")


def estimate_to_list(edge):
    est = edge.estimate
    if gs.kind_of(est):
        return gs.stored(est)
    return _z_list(est)
