"""Graph case generator (DESIGN 3.3): structure from Hypothesis, bulk numerics from the Hypothesis-drawn PRNG.

A materialised graph case is JSON-able:
  {'base': kind, 'verts': [{'id', 'p': {'k','v'}, 'fixed', 'truth': [...], 'role': 'pose'|'lm'}...]   (list order!),
   'edges': [{'t': 'odo'|'lm'|'prior'|'mid'|'eqstep'|'relpose'|'dist'|'range', 'fl': flavour, 'ids': [...], 'z': {'k','v'} | [floats],
              'off': {'k','v'}|None, 'info': [[...]]}, ...],
   'meta': {...generation parameters...}}
Ground truth and measurements are computed with the *reference* model, never with graphslam.
"""
import math

import numpy as np

from . import customedges as CE, gs, refmodel as R

PI = math.pi


def _small_transform(g, kind, nt, nr):
    """A random small transform: translation in [-nt,nt]^d, rotation angle in [-nr,nr]."""
    rnd = g.rnd
    if kind in ("r2", "r3"):
        return [rnd.uniform(-nt, nt) for _ in range(R.PDIM[kind])]
    if kind == "se2":
        return [rnd.uniform(-nt, nt), rnd.uniform(-nt, nt), rnd.uniform(-nr, nr)]
    ax = g.unit_axis()
    a = rnd.uniform(-nr, nr)
    s, c = math.sin(a / 2), math.cos(a / 2)
    return [rnd.uniform(-nt, nt) for _ in range(3)] + [ax[0] * s, ax[1] * s, ax[2] * s, c]


def _f(lst):
    return [float(R.val(x)) for x in lst]


def _canon(kind, p):
    """Store SE2 angles wrapped to (-pi,pi] and renormalise SE3 quaternions (ground truth / measurements)."""
    p = _f(p)
    if kind == "se2":
        p[2] = R.wrap(p[2])
    if kind == "se3":
        n = math.sqrt(math.fsum(x * x for x in p[3:]))
        p[3:] = [x / n for x in p[3:]]
    return p


def gen(
    g,
    bases=("r2", "r3", "se2", "se3"),
    n_pose=(2, 8),
    n_lm=(0, 3),
    n_loops=(0, 3),
    noise=(0.05, 0.05),
    pert=(0.3, 0.3),
    conds=(1.0, 1e2),
    info_kinds=("spd", "spd", "blockdiag", "diag"),
    world=(1.0,),
    features=("parallel", "reversed", "permute", "ids", "multifixed", "custom", "rn_lm_offsets", "quat-signs", "lm_odo", "pure-translation-steps", "near-identity-orientations", "info-scale", "edge-object-twice", "flag-types"),
    fixed_mode="wellposed",
    rot_step=1.0,
    custom_flavour="ana",
    allow_zero_noise=True,
):
    rnd = g.rnd
    base = g.choice(list(bases))
    pk = R.POINT_OF[base]
    npose = g.integer(*n_pose)
    nlm = g.integer(*n_lm)
    nloops = g.integer(*n_loops)
    w = g.choice(list(world))
    nt, nr = noise
    if allow_zero_noise and g.choice([False, False, False, True]):
        nt = nr = 0.0
    pt_, pr_ = pert
    pscale = g.choice([1.0, 1.0, 0.3, 0.0]) if pt_ > 0 else 0.0
    pt_, pr_ = pt_ * pscale, pr_ * pscale
    cond = g.choice(list(conds))
    feats = {f: (f in features and g.boolean()) for f in ("parallel", "reversed", "permute", "ids", "multifixed", "custom", "rn_lm_offsets")}
    # every absolute orientation within 1e-12..3e-8 rad of the identity, but not the identity (a platform that never turns,
    # expressed in a frame aligned with it up to calibration residue): rotation terms that are tiny next to the translations
    feats["near-identity-orientations"] = "near-identity-orientations" in features and base in ("se2", "se3") and g.choice([False, False, False, True])
    tiny = feats["near-identity-orientations"]
    # one common factor on every information matrix (units of the weights): the problem and its solution are the same
    info_scale = g.choice([1.0, 1.0, 1.0, 1.0, 1e-12, 1e-9, 1e-6, 1e6, 1e9]) if "info-scale" in features else 1.0
    feats["info-scale"] = info_scale != 1.0
    feats["edge-object-twice"] = "edge-object-twice" in features and g.choice([False] * 7 + [True])
    feats["flag-types"] = "flag-types" in features and g.choice([False, False, True])
    if tiny:
        pr_ = 0.0

    def tiny_rotation():
        a = rnd.choice([1.0, -1.0]) * 10.0 ** rnd.uniform(-12, -7.5)
        if base == "se2":
            return [a]
        ax = g.unit_axis()
        s_, c_ = math.sin(a / 2), math.cos(a / 2)
        return [ax[0] * s_, ax[1] * s_, ax[2] * s_, c_]

    # ---- ground truth
    def rnd_pose(kind, spread):
        if kind in ("r2", "r3"):
            return [rnd.uniform(-spread, spread) for _ in range(R.PDIM[kind])]
        if kind == "se2":
            return [rnd.uniform(-spread, spread), rnd.uniform(-spread, spread), rnd.uniform(-PI, PI)]
        return [rnd.uniform(-spread, spread) for _ in range(3)] + g.unit_quat(cls="generic", sign=rnd.random() < 0.5)

    truth = [rnd_pose(base, 3.0 * w)]
    if tiny:
        truth[0] = truth[0][: R.PDIM[base]] + tiny_rotation()
    parents = [None]
    tree = g.choice(["chain", "chain", "tree"])
    for i in range(1, npose):
        par = i - 1 if tree == "chain" else rnd.randrange(i)
        step = _small_transform(g, base, w, rot_step)
        if "pure-translation-steps" in features and base in ("se2", "se3") and rnd.random() < 0.25:
            # a translating platform: consecutive poses share their rotation exactly
            step = list(step[: R.PDIM[base]]) + list(R.identity(base)[R.PDIM[base]:])
        elif tiny:
            step = list(step[: R.PDIM[base]]) + tiny_rotation()
        if base in ("r2", "r3"):
            truth.append([a + b for a, b in zip(truth[par], step)])
        else:
            truth.append(_canon(base, R.mul(base, truth[par], step)))
        parents.append(par)
    lms = []
    for _ in range(nlm):
        anchor = truth[rnd.randrange(npose)]
        lms.append([anchor[i] + rnd.uniform(-2 * w, 2 * w) for i in range(R.PDIM[base])])

    # ---- edges (indices into poses 0..npose-1, landmarks npose..)
    def info_for(n):
        ik = g.rnd.choice(list(info_kinds))
        M = _sym(g, n, cond, ik)
        if info_scale != 1.0:
            M = (np.array(M) * info_scale).tolist()
        return M

    edges = []

    def odo(i, j):
        rel = R.ominus(base, truth[j], truth[i])  # truth[i]^-1 (+) truth[j]
        if base in ("r2", "r3"):
            z = [a + rnd.uniform(-nt, nt) for a in _f(rel)]
        else:
            z = _canon(base, R.mul(base, _f(rel), _small_transform(g, base, nt, nr)))
        edges.append({"t": "odo", "fl": None, "ix": [i, j], "z": {"k": base, "v": z}, "off": None, "info": info_for(R.CDIM[base])})

    for i in range(1, npose):
        a, b = parents[i], i
        if feats["reversed"] and rnd.random() < 0.4:
            a, b = b, a
        odo(a, b)
    for _ in range(nloops):
        if npose < 2:
            break
        i, j = rnd.sample(range(npose), 2)
        odo(i, j)
    if feats["parallel"] and edges:
        for _ in range(rnd.randint(1, 2)):
            e = rnd.choice([e for e in edges if e["t"] == "odo"])
            odo(*e["ix"])
    for l in range(nlm):
        nobs = rnd.randint(1, min(3, npose))
        for i in rnd.sample(range(npose), nobs):
            if base in ("se2", "se3"):
                ocls = rnd.choice(["identity", "generic", "generic", "pure-rotation", "pure-translation"])
                off = R.identity(base) if ocls == "identity" else rnd_pose(base, w)
                if ocls == "pure-rotation":
                    off = [0.0] * R.PDIM[base] + list(off[R.PDIM[base]:])
                elif ocls == "pure-translation":
                    off = list(off[: R.PDIM[base]]) + list(R.identity(base)[R.PDIM[base]:])
            else:
                off = [rnd.uniform(-w, w) for _ in range(R.PDIM[base])] if feats["rn_lm_offsets"] else [0.0] * R.PDIM[base]
            T = R.inv(base, R.mul(base, truth[i], off))
            z = [a + rnd.uniform(-nt, nt) for a in _f(R.act(base, T, lms[l]))]
            edges.append({"t": "lm", "fl": None, "ix": [i, npose + l], "z": {"k": pk, "v": z}, "off": {"k": base, "v": _f(off)}, "info": info_for(R.CDIM[pk])})

    if nlm >= 2 and "lm_odo" in features and g.boolean():
        for _ in range(rnd.randint(1, 2)):
            a, b = rnd.sample(range(nlm), 2)
            z = [lms[b][t] - lms[a][t] + rnd.uniform(-nt, nt) for t in range(R.PDIM[base])]
            edges.append({"t": "odo", "fl": None, "ix": [npose + a, npose + b], "z": {"k": pk, "v": z}, "off": None, "info": info_for(R.CDIM[pk])})
    allk = [base] * npose + [pk] * nlm
    alltruth = [list(t) for t in truth] + [list(l) for l in lms]
    nv = npose + nlm

    if feats["custom"]:
        for _ in range(rnd.randint(1, 2)):
            tag = g.choice(["prior", "mid", "eqstep"] + (["relpose"] if base in ("se2", "se3", "r2", "r3") else []))
            if tag == "prior":
                i = rnd.randrange(nv)
                k = allk[i]
                if k in ("r2", "r3"):
                    z = [a + rnd.uniform(-nt, nt) for a in alltruth[i]]
                else:
                    z = _canon(k, R.mul(k, alltruth[i], _small_transform(g, k, nt, nr)))
                edges.append({"t": "prior", "fl": custom_flavour, "ix": [i], "z": {"k": k, "v": z}, "off": None, "info": info_for(R.CDIM[k])})
            elif tag in ("mid", "eqstep") and nv >= 3:
                ix = rnd.sample(range(nv), 3)
                pd = R.PDIM[base]
                a, b, c = (alltruth[i][:pd] for i in ix)
                if tag == "mid":
                    z = [c[t] - 0.5 * (a[t] + b[t]) + rnd.uniform(-nt, nt) for t in range(pd)]
                else:
                    z = [(c[t] - b[t]) - (b[t] - a[t]) + rnd.uniform(-nt, nt) for t in range(pd)]
                edges.append({"t": tag, "fl": custom_flavour, "ix": ix, "z": z, "off": None, "info": info_for(pd)})
            elif tag == "relpose" and npose >= 2:
                i, j = rnd.sample(range(npose), 2)
                rel = R.ominus(base, truth[j], truth[i])
                if base in ("r2", "r3"):
                    z = [a + rnd.uniform(-nt, nt) for a in _f(rel)]
                else:
                    z = _canon(base, R.mul(base, _f(rel), _small_transform(g, base, nt, nr)))
                edges.append({"t": "relpose", "fl": custom_flavour, "ix": [i, j], "z": {"k": base, "v": z}, "off": None, "info": info_for(R.CDIM[base])})

    # ---- vertices: initial guess, list order, ids, fixed flags
    order = list(range(nv))
    if feats["permute"]:
        rnd.shuffle(order)
    ids = g.ids(nv) if feats["ids"] else list(range(nv))
    fix_first = g.boolean()
    fixed = [False] * nv
    if fixed_mode == "wellposed":
        pose_first = order[0] < npose
        if not (fix_first and pose_first):
            fixed[rnd.randrange(npose)] = True  # a fixed pose anchors the gauge
        if feats["multifixed"]:
            for _ in range(rnd.randint(1, 3)):
                fixed[rnd.randrange(nv)] = True
    elif fixed_mode == "none":
        pass
    verts = []
    for i in order:
        k = allk[i]
        is_fixed = fixed[i] or (fix_first and i == order[0])
        if is_fixed or (pt_ == 0.0 and pr_ == 0.0):
            p = list(alltruth[i])
        elif k in ("r2", "r3"):
            p = [a + rnd.uniform(-pt_ * w, pt_ * w) for a in alltruth[i]]
        else:
            p = _canon(k, R.mul(k, alltruth[i], _small_transform(g, k, pt_ * w, pr_)))
        verts.append({"id": ids[i], "p": {"k": k, "v": p}, "fixed": fixed[i], "truth": list(alltruth[i]), "role": "pose" if i < npose else "lm"})
    rnd.shuffle(edges) if feats["permute"] else None
    for e in edges:
        e["ids"] = [ids[i] for i in e.pop("ix")]
        # the same information values in different memory layouts (C order, Fortran order, strided view, read-only)
        e["layout"] = rnd.choice(["C", "C", "C", "F", "strided", "readonly"])
        # ids may arrive as numpy integers (they hash and compare like Python ints)
        e["np_ids"] = rnd.random() < 0.15
    if feats["flag-types"]:
        # fixed flags as they come from callers: Python ints, numpy bools, numpy ints (truthiness is what counts)
        for v in verts:
            v["flag_type"] = rnd.choice(["bool", "int", "npbool", "npint"])
    if base == "se3" and "quat-signs" in features:
        # q and -q are the same rotation: store a random representative everywhere (measurements, offsets, vertices)
        def flip(pd):
            if isinstance(pd, dict) and pd["k"] == "se3" and rnd.random() < 0.5:
                pd["v"][3:] = [-x for x in pd["v"][3:]]
        for e in edges:
            flip(e["z"])
            flip(e.get("off"))
        for v in verts:
            flip(v["p"])
    if feats["edge-object-twice"] and edges:
        # the very same edge OBJECT listed twice (a measurement counted with double weight): "same_as" = index of the original
        import copy as _copy

        i = rnd.randrange(len(edges))
        dup = _copy.deepcopy(edges[i])
        pos = rnd.randint(i + 1, len(edges))
        dup["same_as"] = i
        edges.insert(pos, dup)
    return {
        "base": base,
        "verts": verts,
        "edges": edges,
        "fix_first": fix_first,
        "meta": {"npose": npose, "nlm": nlm, "nloops": nloops, "noise": [nt, nr], "pert": [pt_, pr_], "cond": cond, "world": w, "feats": sorted(k for k, v in feats.items() if v), "tree": tree},
    }


def _sym(g, n, cond, kind):
    """SPD information matrix with prescribed condition number (numerics from the PRNG only)."""
    rnd = g.rnd
    if kind == "ident":
        return np.eye(n).tolist()
    base = rnd.choice([0.1, 1.0, 1.0, 10.0, 100.0])
    lam = [base * (cond ** rnd.random()) for _ in range(n)]
    if n > 1 and cond > 1:
        lam[0], lam[-1] = base, base * cond
        rnd.shuffle(lam)
    M = np.diag(lam)
    if kind != "diag" and n > 1:
        A = np.array([[rnd.gauss(0, 1) for _ in range(n)] for _ in range(n)])
        if kind == "blockdiag" and n == 6:
            A[:3, 3:] = 0.0
            A[3:, :3] = 0.0
        Q, _ = np.linalg.qr(A)
        if kind == "blockdiag" and n == 6:
            Q[:3, 3:] = 0.0
            Q[3:, :3] = 0.0
        M = Q @ M @ Q.T
    M = (M + M.T) / 2.0
    return M.tolist()


# ----------------------------------------------------------------------------- materialised case -> live graph
def _layout(info, how):
    """The same matrix values in another memory layout (the library must treat its inputs as read-only values)."""
    if how == "F":
        return np.asfortranarray(info)
    if how == "strided":
        big = np.zeros((2 * info.shape[0], 2 * info.shape[1]))
        big[::2, ::2] = info
        return big[::2, ::2]
    if how == "readonly":
        out = info.copy()
        out.setflags(write=False)
        return out
    return info


def _ids(e):
    ids = list(e["ids"])
    if e.get("np_ids") and all(-(2**62) < i < 2**62 for i in ids):
        return [np.int64(i) for i in ids]
    return ids


def build_edge(e):
    info = _layout(np.array(e["info"], dtype=np.float64), e.get("layout", "C"))
    t = e["t"]
    if t == "odo":
        return gs.EdgeOdometry(_ids(e), info, gs.mk_pose(e["z"]))
    if t == "lm":
        return gs.EdgeLandmark(_ids(e), info, gs.mk_pose(e["z"]), gs.mk_pose(e["off"]), offset_id=e.get("off_id", 0))
    cls = CE.CLASSES[(t, e.get("fl") or "ana")]
    z = e["z"]
    est = gs.mk_pose(z) if isinstance(z, dict) else (np.array(z, dtype=np.float64) if len(z) > 1 or t in ("mid", "eqstep") else float(z[0]))
    return cls(_ids(e), info, est)


def _flag(v):
    f = bool(v["fixed"])
    t = v.get("flag_type", "bool")
    if t == "int":
        return int(f)
    if t == "npbool":
        return np.bool_(f)
    if t == "npint":
        return np.int64(int(f))
    return f


def build_edges(case):
    edges = []
    for e in case["edges"]:
        if e.get("same_as") is not None:
            edges.append(edges[e["same_as"]])
        else:
            edges.append(build_edge(e))
    return edges


def build(case):
    """Fresh live Graph from a materialised case."""
    verts = [gs.Vertex(v["id"], gs.mk_pose(v["p"]), fixed=_flag(v)) for v in case["verts"]]
    return gs.Graph(build_edges(case), verts)


def summarise(case):
    """Compact description for evidence samples."""
    return {
        "base": case["base"],
        "n_verts": len(case["verts"]),
        "n_edges": len(case["edges"]),
        "edge_types": sorted(set(e["t"] for e in case["edges"])),
        "ids": [v["id"] for v in case["verts"]][:8],
        "fixed": [i for i, v in enumerate(case["verts"]) if v["fixed"]],
        "fix_first": case.get("fix_first"),
        "meta": case.get("meta"),
        "first_vertex": case["verts"][0]["p"],
        "first_edge": {k: case["edges"][0][k] for k in ("t", "ids", "z")} if case["edges"] else None,
    }


def S_of(case):
    s = 0.0
    for v in case["verts"]:
        s = max(s, gs.max_trans(v["p"]))
    for e in case["edges"]:
        if isinstance(e["z"], dict):
            s = max(s, gs.max_trans(e["z"]))
        else:
            s = max(s, max(abs(x) for x in e["z"]))
        if e.get("off"):
            s = max(s, gs.max_trans(e["off"]))
    return s


def classify(case, ctx):
    m = case["meta"]
    ctx.event("base:" + case["base"])
    for f in m["feats"]:
        ctx.event("feat:" + f)
    ts = set(e["t"] for e in case["edges"])
    for t in ts:
        ctx.event("has-edge:" + t)
    nfixed = sum(1 for v in case["verts"] if v["fixed"])
    ctx.event("nfixed:%d" % min(nfixed, 4))
    if m["nloops"]:
        ctx.event("has-loop")
    if m["noise"][0] == 0:
        ctx.event("zero-noise")
    ctx.event("size:%s" % ("<=4" if len(case["verts"]) <= 4 else "<=10" if len(case["verts"]) <= 10 else ">10"))
    kinds = set(v["p"]["k"] for v in case["verts"])
    if len(set(R.CDIM[k] for k in kinds)) > 1:
        ctx.event("mixed-dimensions")
