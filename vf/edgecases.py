"""Single-edge cases shared by C01 / C02 (and reused by graph-level properties).

An edge case is {'ek': 'odo:se3'|'lm:se2'|..., 'p1','p2','z','off' (pose dicts; off None for odometry), 'info': matrix}.
"""
import numpy as np

from . import gs, refmodel as R
from .dual import seeds, jacobian, values

EDGE_KINDS = ["odo:r2", "odo:r3", "odo:se2", "odo:se3", "lm:se2", "lm:se3", "lm:r2", "lm:r3"]


def kinds_of(ek):
    """(pose kind of vertex 0, pose kind of vertex 1, kind of measurement, kind of offset or None)"""
    t, k = ek.split(":")
    if t == "odo":
        return k, k, k, None
    pk = R.POINT_OF[k]
    return k, pk, pk, k


def err_dim(ek):
    k0, k1, kz, ko = kinds_of(ek)
    return R.CDIM[kz]


def gen_edge(g, ek=None, s=None, info_kind="spd", max_cond=1e8):
    if ek is None:
        ek = g.choice(EDGE_KINDS)
    k0, k1, kz, ko = kinds_of(ek)
    if s is None:
        s = g.scale()
    case = {
        "ek": ek,
        "p1": g.pose(k0, s=s),
        "p2": g.pose(k1, s=g.choice([s, 1.0])),
        "z": g.pose(kz, s=g.choice([s, 1.0])),
        "off": g.pose(ko, s=g.choice([s, 1.0, 0.0])) if ko else None,
        "info": g.sym_matrix(R.CDIM[kz], max_cond=max_cond, kind=info_kind),
        "layout": g.choice(["C", "C", "C", "F", "strided", "readonly"]),
    }
    return case


def narrow_info(g, n):
    """Whole-number symmetric diagonally dominant weights with entries in the upper half of a narrow dtype's range."""
    rnd = g.rnd
    dt = g.choice(["int8", "int16", "uint8", "int32", "float16", "float32", "bool", "int64"])
    if dt == "bool":
        return np.eye(n).tolist(), dt
    hi = {"int8": 127, "int16": 32767, "uint8": 255, "int32": 2**31 - 1, "float16": 60000, "float32": 2**24, "int64": 2**53}[dt]
    M = [[0.0] * n for _ in range(n)]
    for i in range(n):
        M[i][i] = float(rnd.randint(hi // 2 + 1, hi))
        for j in range(i + 1, n):
            if dt.startswith("float"):
                M[i][j] = M[j][i] = float(rnd.choice([0, 0, 1, -1, 2]))
            else:
                lo = 0 if dt == "uint8" else -(hi // (4 * n))
                M[i][j] = M[j][i] = float(rnd.choice([0, 0, 1, rnd.randint(lo, hi // (4 * n))]))
    if dt == "float16":
        M = np.array(M).astype(np.float16).astype(np.float64).tolist()
    return M, dt


def build_edge(case, ids=(0, 1)):
    """Build the real graphslam edge with its two vertices attached.  Returns (edge, v1, v2)."""
    ek = case["ek"]
    v1 = gs.Vertex(ids[0], gs.mk_pose(case["p1"]))
    v2 = gs.Vertex(ids[1], gs.mk_pose(case["p2"]))
    from .graphgen import _layout

    info = _layout(np.array(case["info"], dtype=np.float64), case.get("layout", "C"))
    if case.get("info_dtype"):
        # the same (whole-number) weights handed over in a narrow dtype
        info = np.array(case["info"], dtype=np.float64).astype(case["info_dtype"])
    z = gs.mk_pose(case["z"])
    if ek.startswith("odo:"):
        e = gs.EdgeOdometry([ids[0], ids[1]], info, z, [v1, v2])
    else:
        off = gs.mk_pose(case["off"])
        e = gs.EdgeLandmark([ids[0], ids[1]], info, z, off, offset_id=0, vertices=[v1, v2])
    return e, v1, v2


def ref_operands(edge):
    """Reference operands = the numbers actually stored in the edge's objects."""
    rp1 = gs.stored(edge.vertices[0].pose)
    rp2 = gs.stored(edge.vertices[1].pose)
    rz = gs.stored(edge.estimate)
    roff = gs.stored(edge.offset) if hasattr(edge, "offset") and edge.offset is not None else None
    return rp1, rp2, rz, roff


def ref_error(ek, rp1, rp2, rz, roff):
    """Reference error (list of scalars, possibly Dual)."""
    t, k = ek.split(":")
    if t == "odo":
        return R.odo_err(k, rp1, rp2, rz)
    return R.lm_err(k, rp1, roff, rp2, rz)


def ref_error_and_jacobians(ek, rp1, rp2, rz, roff):
    """Reference error values and exact (AD) Jacobians w.r.t. the boxplus perturbation of each vertex."""
    k0, k1, kz, ko = kinds_of(ek)
    c0, c1 = R.CDIM[k0], R.CDIM[k1]
    d = seeds(c0 + c1)
    q1 = R.boxplus(k0, rp1, d[:c0])
    q2 = R.boxplus(k1, rp2, d[c0:])
    out = ref_error(ek, q1, q2, rz, roff)
    J = jacobian(out, c0 + c1)
    return values(out), J[:, :c0], J[:, c0:]


def S_of(case):
    ps = [case["p1"], case["p2"], case["z"]] + ([case["off"]] if case.get("off") else [])
    return gs.max_trans(*ps)


def tol_rows(ek, S, base):
    """Per-row tolerance: rows of the error that involve translations scale with (1+S); pure rotation rows do not."""
    t, k = ek.split(":")
    n = err_dim(ek)
    tol = np.full(n, base * (1.0 + S))
    if t == "odo" and k == "se2":
        tol[2] = base
    if t == "odo" and k == "se3":
        tol[3:] = base
    return tol


def classify_edge(case, ctx):
    ek = case["ek"]
    ctx.event("edge:" + ek)
    ps = [case["p1"], case["p2"], case["z"]] + ([case["off"]] if case.get("off") else [])
    nontriv = any(gs.outside_suite_box(p) for p in ps)
    for p in ps:
        if p["k"] == "se3":
            w = p["v"][6]
            if w < 0:
                ctx.event("w<0")
            if w == 0:
                ctx.event("w==0")
            elif abs(w) < 1e-2:
                ctx.event("|w|<1e-2")
        if p["k"] == "se2" and abs(abs(p["v"][2]) - np.pi) < 1e-3:
            ctx.event("near-pi")
    off = case.get("off")
    if off is not None and off["k"] in ("se2", "se3"):
        rotated = (off["k"] == "se2" and off["v"][2] != 0.0) or (off["k"] == "se3" and abs(off["v"][6]) != 1.0)
        if rotated:
            ctx.event("offset-rotated")
            nontriv = True
    S = S_of(case)
    if S > 1e3:
        ctx.event("S>1e3")
    info = np.array(case["info"])
    if np.abs(info - np.diag(np.diag(info))).max() > 0:
        ctx.event("info-nondiagonal")
    return nontriv, S
