"""Runner: tiers, seeds, sharding over cores, failure collection, known-findings matching,
replay writing, evidence writing, exit codes.

Usage:  python -m vf.runner <ID> [--tier quick|thorough] [--replay PATH] [--workers N]

exit 0  the property held on everything explored (KNOWN-FINDING lines may be printed)
exit 1  at least one unlisted violation; a line `VIOLATION property=<ID> replay=<path>` per distinct signature
exit 2  harness error (bug in the machinery, missing dependency); never reported as a violation
"""
import argparse
import hashlib
import importlib
import json
import multiprocessing
import os
import sys
import time
import traceback
from collections import Counter

from . import env  # noqa: F401  (imports graphslam from the working tree)

import numpy as np  # noqa: E402
import hypothesis  # noqa: E402
from hypothesis import HealthCheck, Phase, given, seed, settings  # noqa: E402

VERIF = env.VERIF
KNOWN_FINDINGS_FILE = os.path.join(VERIF, "known_findings.json")
REPLAY_DIR = os.path.join(VERIF, "replays")
FOUND_DIR = os.path.join(REPLAY_DIR, "found")
EVIDENCE_DIR = os.path.join(VERIF, "evidence")


class Violation(Exception):
    def __init__(self, sig, msg):
        super().__init__("%s: %s" % (sig, msg))
        self.sig = sig
        self.msg = msg


class HarnessError(Exception):
    pass


def canon(obj):
    return json.dumps(obj, sort_keys=True, separators=(",", ":"), default=_json_default)


def _json_default(o):
    if isinstance(o, (np.floating,)):
        return float(o)
    if isinstance(o, (np.integer,)):
        return int(o)
    if isinstance(o, np.ndarray):
        return o.tolist()
    if isinstance(o, (np.bool_,)):
        return bool(o)
    raise TypeError(type(o))


def case_hash(case):
    return int.from_bytes(hashlib.blake2b(canon(case).encode(), digest_size=8).digest(), "little")


def load_known_findings():
    if not os.path.exists(KNOWN_FINDINGS_FILE):
        return []
    with open(KNOWN_FINDINGS_FILE) as f:
        return json.load(f).get("findings", [])


class Ctx:
    """Per-worker context handed to a property's check()."""

    def __init__(self, prop, tier, known):
        self.prop = prop
        self.tier = tier
        self.known = [k for k in known if k.get("property") == prop.ID and k.get("status") == "known"]
        self.evaluations = 0
        self.classes = Counter()
        self.hashes = []
        self.samples = []
        self.sample_sigs = set()
        self.known_hits = Counter()
        self.dev = {}
        self.ambiguous = 0
        self.discarded = 0
        self._nontrivial = False
        self._labels = None
        self._case = None

    # -- classification ------------------------------------------------------
    def event(self, label):
        self.classes[label] += 1
        if self._labels is not None:
            self._labels.append(label)

    def nontrivial(self, flag=True):
        if flag:
            self._nontrivial = True

    def deviation(self, name, value, tol):
        """Record how close an observed deviation came to its tolerance (max of value/tol)."""
        if tol > 0 and value == value:
            r = float(value) / float(tol)
            if r > self.dev.get(name, 0.0):
                self.dev[name] = r

    # -- failures -------------------------------------------------------------
    def fail(self, sig, msg):
        """Report a sub-oracle failure.  Returns True if it is a listed known finding (counted, not raised)."""
        for k in self.known:
            if k.get("signature") == sig:
                matcher = self.prop.KNOWN_MATCHERS.get(k.get("matcher")) if hasattr(self.prop, "KNOWN_MATCHERS") else None
                if matcher is None or matcher(self._case, sig, msg):
                    self.known_hits[k["id"]] += 1
                    return True
        raise Violation(sig, msg)

    def check_close(self, sig, name, got, want, tol, what=""):
        """|got-want|.max() <= tol, NaN-safe (a NaN in `got` is a failure)."""
        got = np.asarray(got, dtype=float)
        want = np.asarray(want, dtype=float)
        if got.shape != want.shape:
            return self.fail(sig, "%s shape %s != expected %s %s" % (name, got.shape, want.shape, what))
        if got.size == 0:
            return False
        d = np.abs(got - want)
        tol_arr = np.broadcast_to(np.asarray(tol, dtype=float), d.shape)
        bad = ~(d <= tol_arr)
        with np.errstate(divide="ignore", invalid="ignore"):
            ratio = np.where(tol_arr > 0, d / tol_arr, np.where(d > 0, np.inf, 0.0))
        r = float(np.nanmax(ratio)) if ratio.size else 0.0
        if r > self.dev.get(name, 0.0) and np.isfinite(r):
            self.dev[name] = r
        if bad.any():
            idx = np.unravel_index(int(np.argmax(np.where(np.isnan(d), np.inf, ratio))), d.shape)
            return self.fail(
                sig,
                "%s: |got-want|=%.3e > tol=%.3e at %s (got=%r want=%r) %s"
                % (name, d[idx], tol_arr[idx], idx, float(got[idx]), float(want[idx]), what),
            )
        return False


def _exception_origin(exc):
    """Classify an unexpected exception: 'graphslam' if the innermost frame outside third-party
    libraries is in the graphslam package, else 'harness'."""
    tb = traceback.extract_tb(exc.__traceback__)
    site = "/site-packages/"
    for fr in reversed(tb):
        fn = os.path.realpath(fr.filename)
        if fn.startswith(env.GRAPHSLAM_DIR + os.sep):
            return "graphslam", "%s:%s" % (os.path.basename(fn), fr.name)
        if fn.startswith(VERIF + os.sep):
            return "harness", "%s:%s" % (os.path.basename(fn), fr.name)
        if site in fn or "/lib/python" in fn:
            continue
    return "harness", "?"


def run_one(prop, case, ctx):
    """Run the property's check on one materialised case; unexpected graphslam exceptions become violations."""
    ctx._case = case
    try:
        prop.check(case, ctx)
    except Violation:
        raise
    except hypothesis.errors.HypothesisException:
        raise
    except (KeyboardInterrupt, SystemExit, MemoryError):
        raise
    except Exception as exc:  # noqa: BLE001
        origin, where = _exception_origin(exc)
        if origin == "graphslam":
            sig = "exception:%s@%s" % (type(exc).__name__, where)
            # route through ctx.fail so that a listed known finding is honoured
            if ctx.fail(sig, "%s: %s" % (type(exc).__name__, exc)):
                return
        raise HarnessError("".join(traceback.format_exception(type(exc), exc, exc.__traceback__)))


SKIP_KEYS = {"info", "info2", "d", "truth", "meta", "ab", "disp", "jitter", "file", "records", "T"}


def _float_paths(obj, path=()):
    """Paths to the float leaves of a case that may be simplified without leaving the input domain: translations and
    SE(2) angles of {'k','v'} pose dicts and plain number lists; never quaternion components, matrices or increments."""
    out = []
    if isinstance(obj, dict):
        if set(obj.keys()) >= {"k", "v"} and isinstance(obj["v"], list):
            n = {"r2": 2, "r3": 3, "se2": 3, "se3": 3}.get(obj["k"], 0)
            for i in range(min(n, len(obj["v"]))):
                if isinstance(obj["v"][i], float):
                    out.append(path + ("v", i))
            return out
        for k, v in obj.items():
            if k in SKIP_KEYS:
                continue
            out += _float_paths(v, path + (k,))
    elif isinstance(obj, list):
        for i, v in enumerate(obj):
            if isinstance(v, float):
                out.append(path + (i,))
            elif isinstance(v, (dict, list)):
                out += _float_paths(v, path + (i,))
    return out


def _get(obj, path):
    for k in path:
        obj = obj[k]
    return obj


def _set(obj, path, val):
    for k in path[:-1]:
        obj = obj[k]
    obj[path[-1]] = val


def simplify_numbers(prop, failure, known, max_calls=200, max_s=25.0):
    """After Hypothesis has shrunk the structure: snap individual numbers of the failing case to simpler values
    (0, 1, -1, rounded) as long as the same sub-oracle keeps failing.  Best effort, bounded, never widens the domain."""
    import copy

    case = copy.deepcopy(failure["case"])
    sig = failure["sig"]
    msg = failure["msg"]
    t0 = time.time()
    calls = 0
    changed = 0
    for path in _float_paths(case):
        x = _get(case, path)
        cands = []
        for c in (0.0, 1.0, -1.0, float(round(x)), round(x, 1), round(x, 3)):
            if c != x and c not in cands and len(repr(c)) < len(repr(x)):
                cands.append(c)
        for c in cands:
            if calls >= max_calls or time.time() - t0 > max_s:
                break
            calls += 1
            trial = copy.deepcopy(case)
            _set(trial, path, c)
            ctx = Ctx(prop, "simplify", known)
            ctx._labels = []
            try:
                run_one(prop, trial, ctx)
            except Violation as v:
                if v.sig == sig:
                    case = trial
                    msg = v.msg
                    changed += 1
                    break
            except BaseException:  # noqa: BLE001
                pass
        if calls >= max_calls or time.time() - t0 > max_s:
            break
    return {"case": case, "sig": sig, "msg": msg, "numbers_simplified": changed}


def derive_seed(verif_seed, prop_id, shard):
    h = hashlib.blake2b(("%d|%s|%d" % (verif_seed, prop_id, shard)).encode(), digest_size=8).digest()
    return int.from_bytes(h, "little") % (2**63)


def _worker(args):
    prop_id, tier, verif_seed, shard, nshards, n_examples, wall_cap = args
    t0 = time.time()
    out = {"shard": shard}
    try:
        prop = importlib.import_module("vf.props.%s" % prop_id.lower())
        known = load_known_findings()
        ctx = Ctx(prop, tier, known)
        state = {"failure": None, "post_fail_calls": 0, "fail_t": None, "truncated": False}
        shrink_cap_calls = getattr(prop, "SHRINK_CALLS", {}).get(tier, 400)
        shrink_cap_s = getattr(prop, "SHRINK_SECONDS", {}).get(tier, 45.0)

        strat = prop.strategy(tier)

        @seed(derive_seed(verif_seed, prop_id, shard))
        @settings(
            max_examples=n_examples,
            database=None,
            deadline=None,
            derandomize=False,
            report_multiple_bugs=False,
            suppress_health_check=list(HealthCheck),
            phases=[Phase.generate, Phase.shrink],
            print_blob=False,
            verbosity=hypothesis.Verbosity.quiet,
        )
        @given(strat)
        def test(spec):
            if state["failure"] is not None:
                state["post_fail_calls"] += 1
                if state["post_fail_calls"] > shrink_cap_calls or time.time() - state["fail_t"] > shrink_cap_s:
                    return  # shrink budget exhausted: make the shrinker terminate
            elif time.time() - t0 > wall_cap:
                state["truncated"] = True
                return
            case = prop.materialise(spec) if hasattr(prop, "materialise") else spec
            ctx._nontrivial = False
            ctx._labels = []
            if state["failure"] is None:
                ctx.evaluations += 1
            try:
                run_one(prop, case, ctx)
            except Violation as v:
                if state["failure"] is None:
                    state["fail_t"] = time.time()
                state["failure"] = {"case": case, "sig": v.sig, "msg": v.msg}
                raise
            finally:
                if state["failure"] is None or state["post_fail_calls"] == 0:
                    if ctx._nontrivial:
                        ctx.hashes.append(case_hash(case))
                    if len(ctx.samples) < 4 and (ctx._nontrivial or len(ctx.samples) < 1):
                        key = tuple(sorted(set(ctx._labels)))
                        if key not in ctx.sample_sigs or len(ctx.samples) < 2:
                            ctx.sample_sigs.add(key)
                            summ = prop.summarise(case) if hasattr(prop, "summarise") else case
                            ctx.samples.append({"labels": sorted(set(ctx._labels)), "case": summ})

        # ---- exhaustive part (finite product enumerated completely, sharded by index), if the property has one
        if hasattr(prop, "enumerate_cases"):
            try:
                for idx, case in enumerate(prop.enumerate_cases()):
                    if idx % nshards != shard:
                        continue
                    ctx._nontrivial = False
                    ctx._labels = []
                    ctx.evaluations += 1
                    out["enumerated"] = out.get("enumerated", 0) + 1
                    try:
                        run_one(prop, case, ctx)
                    except Violation as v:
                        if state["failure"] is None:
                            state["failure"] = {"case": case, "sig": v.sig, "msg": v.msg}
                            state["fail_t"] = time.time()
                        out.setdefault("enum_failures", 0)
                        out["enum_failures"] += 1
                        sigs = out.setdefault("enum_sigs", {})
                        if v.sig not in sigs and len(sigs) < 20:
                            sigs[v.sig] = {"case": case, "sig": v.sig, "msg": v.msg}
                    if ctx._nontrivial:
                        ctx.hashes.append(case_hash(case))
                    if len(ctx.samples) < 2 and ctx._nontrivial:
                        ctx.samples.append({"labels": sorted(set(ctx._labels)), "case": case})
            except HarnessError as he:
                out["harness_error"] = str(he)

        try:
            if state["failure"] is None and "harness_error" not in out:
                test()
        except HarnessError as he:
            out["harness_error"] = str(he)
        except Violation:
            pass
        except hypothesis.errors.HypothesisException as he:
            if state["failure"] is None:
                out["harness_error"] = "hypothesis: %s: %s" % (type(he).__name__, he)
        except BaseException as be:  # noqa: BLE001
            if state["failure"] is None:
                out["harness_error"] = "".join(traceback.format_exception(type(be), be, be.__traceback__))

        if state["failure"] is not None and "harness_error" not in out and getattr(prop, "SIMPLIFY", True):
            try:
                state["failure"] = simplify_numbers(prop, state["failure"], known)
            except BaseException:  # noqa: BLE001
                pass
        out.update(
            evaluations=ctx.evaluations,
            classes=dict(ctx.classes),
            hashes=np.array(ctx.hashes, dtype=np.uint64),
            samples=ctx.samples,
            known_hits=dict(ctx.known_hits),
            dev=ctx.dev,
            failure=state["failure"],
            truncated=state["truncated"],
            wall=time.time() - t0,
        )
    except BaseException as be:  # noqa: BLE001
        out["harness_error"] = "".join(traceback.format_exception(type(be), be, be.__traceback__))
    return out


def write_replay(prop_id, failure, verif_seed, tier):
    os.makedirs(FOUND_DIR, exist_ok=True)
    body = {
        "property": prop_id,
        "signature": failure["sig"],
        "message": failure["msg"],
        "seed": verif_seed,
        "tier": tier,
        "case": failure["case"],
    }
    h = hashlib.blake2b(canon(failure["case"]).encode(), digest_size=5).hexdigest()
    safe = "".join(ch if ch.isalnum() or ch in "-_." else "_" for ch in failure["sig"])[:60]
    path = os.path.join(FOUND_DIR, "%s-%s-%s.json" % (prop_id, safe, h))
    with open(path, "w") as f:
        f.write(json.dumps(body, indent=1, default=_json_default))
    return os.path.relpath(path, VERIF)


def replay_file(prop, path, known):
    """Run one replay file through the property's check.  Returns (status, sig, msg);
    status in {'pass', 'violation', 'known'}"""
    with open(path) as f:
        body = json.load(f)
    ctx = Ctx(prop, "replay", known)
    ctx._labels = []
    try:
        run_one(prop, body["case"], ctx)
    except Violation as v:
        return "violation", v.sig, v.msg
    if ctx.known_hits:
        return "known", ",".join(sorted(ctx.known_hits)), ""
    return "pass", None, None


def main(argv=None):
    ap = argparse.ArgumentParser()
    ap.add_argument("prop")
    ap.add_argument("--tier", default=os.environ.get("VERIF_TIER", "quick"), choices=["quick", "thorough"])
    ap.add_argument("--replay", default=None)
    ap.add_argument("--workers", type=int, default=int(os.environ.get("VERIF_WORKERS", "0")))
    ap.add_argument("--examples", type=int, default=0, help="override examples per worker (calibration only)")
    ap.add_argument("--no-replays", action="store_true", help="skip the replay tier (audit only: shows what the generated search finds by itself)")
    args = ap.parse_args(argv)

    prop_id = args.prop.upper()
    try:
        verif_seed = int(os.environ.get("VERIF_SEED", "1") or "1")
    except ValueError:
        verif_seed = 1
    t0 = time.time()
    try:
        prop = importlib.import_module("vf.props.%s" % prop_id.lower())
        from . import refmodel

        refmodel.selftest()
        if hasattr(prop, "selftest"):
            prop.selftest()
        known = load_known_findings()
    except Exception:  # noqa: BLE001
        traceback.print_exc()
        print("HARNESS-ERROR property=%s (setup)" % prop_id)
        return 2

    # ---- replay of a single file ------------------------------------------------
    if args.replay:
        path = args.replay if os.path.isabs(args.replay) else os.path.join(VERIF, args.replay)
        try:
            status, sig, msg = replay_file(prop, path, known)
        except HarnessError as he:
            print(he)
            print("HARNESS-ERROR property=%s (replay)" % prop_id)
            return 2
        if status == "violation":
            print("replay %s: %s: %s" % (args.replay, sig, msg))
            print("VIOLATION property=%s replay=%s" % (prop_id, os.path.relpath(path, VERIF)))
            return 1
        if status == "known":
            for k in known:
                if k["id"] in sig.split(","):
                    print("KNOWN-FINDING: property=%s %s" % (prop_id, k["description"]))
            return 0
        print("replay %s: property held" % args.replay)
        return 0

    violations = []  # (sig, msg, replay_path)
    known_printed = set()

    # ---- replay tier: committed regression inputs (fixed findings, earlier catches) ----
    replayed = 0
    committed = sorted(
        os.path.join(REPLAY_DIR, f) for f in os.listdir(REPLAY_DIR) if f.startswith(prop_id + "-") and f.endswith(".json")
    ) if os.path.isdir(REPLAY_DIR) else []
    if args.no_replays:
        committed = []
    for path in committed:
        try:
            status, sig, msg = replay_file(prop, path, known)
        except HarnessError as he:
            print(he)
            print("HARNESS-ERROR property=%s (replay tier %s)" % (prop_id, path))
            return 2
        replayed += 1
        if status == "violation":
            print("replay %s: %s: %s" % (os.path.relpath(path, VERIF), sig, msg))
            violations.append((sig, msg, os.path.relpath(path, VERIF)))
        elif status == "known":
            for kid in sig.split(","):
                known_printed.add(kid)

    # ---- generated search -----------------------------------------------------------
    nworkers = args.workers or min(16, os.cpu_count() or 1)
    budget = prop.BUDGET[args.tier]
    total = args.examples * nworkers if args.examples else budget
    per = max(1, total // nworkers)
    wall_cap = getattr(prop, "WALL_CAP", {}).get(args.tier, 120.0 if args.tier == "quick" else 1500.0)
    jobs = [(prop_id, args.tier, verif_seed, i, nworkers, per, wall_cap) for i in range(nworkers)]
    ctxm = multiprocessing.get_context("fork")
    with ctxm.Pool(nworkers) as pool:
        results = pool.map(_worker, jobs, chunksize=1)

    harness_errors = [r["harness_error"] for r in results if r.get("harness_error")]
    evaluations = sum(r.get("evaluations", 0) for r in results)
    classes = Counter()
    known_hits = Counter()
    dev = {}
    samples = []
    truncated = any(r.get("truncated") for r in results)
    for r in results:
        classes.update(r.get("classes", {}))
        known_hits.update(r.get("known_hits", {}))
        for k, v in r.get("dev", {}).items():
            dev[k] = max(dev.get(k, 0.0), v)
    for i in range(4):
        for r in results:
            s = r.get("samples", [])
            if i < len(s) and len(samples) < 8:
                samples.append(s[i])
    allh = [r["hashes"] for r in results if "hashes" in r and len(r["hashes"])]
    distinct_nontrivial = int(len(np.unique(np.concatenate(allh)))) if allh else 0

    seen_sigs = set(v[0] for v in violations)
    for r in results:
        for sig, f in sorted(r.get("enum_sigs", {}).items()):
            if sig not in seen_sigs:
                seen_sigs.add(sig)
                path = write_replay(prop_id, f, verif_seed, args.tier)
                print("shard %d (enumeration): %s: %s" % (r["shard"], f["sig"], f["msg"]))
                violations.append((f["sig"], f["msg"], path))
    for r in results:
        f = r.get("failure")
        if f and f["sig"] not in seen_sigs:
            seen_sigs.add(f["sig"])
            path = write_replay(prop_id, f, verif_seed, args.tier)
            print("shard %d: %s: %s" % (r["shard"], f["sig"], f["msg"]))
            violations.append((f["sig"], f["msg"], path))

    for kid in known_hits:
        known_printed.add(kid)

    wall = time.time() - t0
    evidence = {
        "property_id": prop_id,
        "tier": args.tier,
        "seed": verif_seed,
        "level": "exploration",
        "coverage": {
            "evaluations": int(evaluations),
            "distinct_nontrivial": int(distinct_nontrivial),
            "rule": prop.RULE,
            "samples": samples,
            "class_histogram": dict(sorted(classes.items())),
            "excluded_by_known_finding": dict(known_hits),
            "max_deviation_over_tolerance": {k: float("%.3g" % v) for k, v in sorted(dev.items())},
            "tolerances": getattr(prop, "TOLERANCES", {}),
            "replay_tier_files": replayed,
            "shards": nworkers,
            "examples_per_shard": per,
            "truncated_by_wall_cap": bool(truncated),
            "exhaustive": bool(getattr(prop, "EXHAUSTIVE", False)),
            "enumerated_cases": int(sum(r.get("enumerated", 0) for r in results)),
            "repo": env.REPO,
        },
        "assumptions": getattr(prop, "ASSUMPTIONS", []),
        "wall_s": round(wall, 2),
        "violations": len(violations),
    }
    if hasattr(prop, "extra_evidence"):
        evidence["coverage"].update(prop.extra_evidence(results))
    # the registered evidence file describes a full-budget run against /repo itself; audit runs (VERIF_REPO pointing at a scratch
    # copy) and reduced-budget runs (--examples) write next to it instead
    ev_dir = EVIDENCE_DIR
    if os.path.realpath(env.REPO) != os.path.realpath("/repo") or args.examples:
        ev_dir = os.path.join(EVIDENCE_DIR, "scratch")
    os.makedirs(ev_dir, exist_ok=True)
    with open(os.path.join(ev_dir, "%s.json" % prop_id), "w") as f:
        f.write(json.dumps(evidence, indent=1, default=_json_default))

    if harness_errors:
        print(harness_errors[0])
        print("HARNESS-ERROR property=%s (%d shard(s))" % (prop_id, len(harness_errors)))
        if not violations:
            return 2

    for k in known:
        if k["id"] in known_printed and k.get("status") == "known":
            print("KNOWN-FINDING: property=%s %s" % (prop_id, k["description"]))

    print(
        "%s %s seed=%d: %d cases, %d distinct non-trivial, %d replayed, %d violation(s), %.1fs%s"
        % (prop_id, args.tier, verif_seed, evaluations, distinct_nontrivial, replayed, len(violations), wall, " TRUNCATED" if truncated else "")
    )
    if violations:
        for sig, msg, path in violations:
            print("VIOLATION property=%s replay=%s" % (prop_id, path))
        return 1
    return 0


if __name__ == "__main__":
    sys.exit(main())
