"""Large linear graphs (thousands of edges / > 20000 unknowns) with closed-form oracles.

Sizes sit on and next to powers of two (4096, 4097, 8193, 16385) and above round thresholds (10000 edges, > 20000
unknowns): the places where blocked / batched / "large problem" code paths switch.  A case stores only its parameters
and a seed; the numbers are regenerated deterministically (numpy RandomState(seed), a pure function of the case).

Oracles (no reference Gauss-Newton needed):
  * chi2 of an R^n odometry graph = sum_e (z_e - (p_j - p_i))^T Omega_e (z_e - (p_j - p_i))      (vectorised numpy);
  * with measurements computed from ground-truth positions (consistent, zero residual) and the first vertex fixed at its
    true position, the weighted-least-squares optimum is the ground truth itself, whatever the weights and the initial
    guesses - and the problem is linear, so ONE Gauss-Newton step must land on it.
"""
import numpy as np

from . import gs

EDGE_COUNTS = [4096, 4097, 8193, 10000, 16385]


def gen(g, counts=EDGE_COUNTS):
    return {
        "shape": "huge",
        "k": g.choice(["r2", "r3"]),
        "T": g.choice(counts),
        "loops": g.choice([0, 0, 3]),
        "seed": g.rnd.randrange(2**31),
        "spread": g.choice([1.0, 100.0]),
        "reverse": g.boolean(),
    }


def materialise(case, consistent):
    """Returns dict(truth (n,d), init (n,d), ij (T,2), z (T,d), w (T,d) diagonal weights)."""
    rs = np.random.RandomState(case["seed"])
    d = 2 if case["k"] == "r2" else 3
    T, L = case["T"], case["loops"]
    n = T - L + 1
    sp = case["spread"]
    truth = np.cumsum(rs.uniform(-sp, sp, (n, d)), axis=0)
    init = truth + rs.uniform(-0.3 * sp, 0.3 * sp, (n, d))
    init[0] = truth[0]
    ij = [(i, i + 1) for i in range(n - 1)]
    for _ in range(L):
        a, b = rs.randint(0, n, 2)
        if a == b:
            b = (a + 1) % n
        ij.append((int(a), int(b)))
    ij = np.array(ij, dtype=int)
    if case["reverse"]:
        flip = rs.rand(len(ij)) < 0.3
        ij[flip] = ij[flip][:, ::-1]
    z = truth[ij[:, 1]] - truth[ij[:, 0]]
    if not consistent:
        z = z + rs.uniform(-0.05 * sp, 0.05 * sp, z.shape)
    w = rs.uniform(0.5, 2.0, (len(ij), d))
    return {"truth": truth, "init": init, "ij": ij, "z": z, "w": w, "d": d, "n": n}


def build(case, m, poses):
    cls = gs.PoseR2 if case["k"] == "r2" else gs.PoseR3
    verts = [gs.Vertex(i, cls(poses[i].copy())) for i in range(m["n"])]
    edges = [gs.EdgeOdometry([int(a), int(b)], np.diag(m["w"][e]), cls(m["z"][e].copy())) for e, (a, b) in enumerate(m["ij"])]
    return gs.Graph(edges, verts)


def chi2_closed_form(m, poses):
    r = m["z"] - (poses[m["ij"][:, 1]] - poses[m["ij"][:, 0]])
    terms = np.sum(m["w"] * r * r, axis=1)
    return float(np.sum(terms)), terms


def check_chi2(case, ctx):
    """Graph.calc_chi2 of a large graph = the sum over all of its edges."""
    m = materialise(case, consistent=False)
    g = build(case, m, m["init"])
    ctx.event("huge:%s:%d-edges" % (case["k"], case["T"]))
    ctx.nontrivial(True)
    want, terms = chi2_closed_form(m, m["init"])
    got = float(g.calc_chi2())
    tol = 1e-9 * want + 1e-300
    ctx.deviation("huge graph chi2", abs(got - want), tol)
    if not (abs(got - want) <= tol):
        # which edge is missing / extra, if it is a single one
        diff = want - got
        k = int(np.argmin(np.abs(terms - diff)))
        hint = " (the difference equals the chi2 of edge #%d of %d)" % (k, len(terms)) if abs(terms[k] - diff) <= 1e-6 * abs(diff) else ""
        return ctx.fail("graph-chi2-vs-closed-form:large-graph", "Graph.calc_chi2=%r on %d R^n odometry edges, closed form %r%s" % (got, len(terms), want, hint))
    return False


def check_one_step(case, ctx, sig):
    """One Gauss-Newton iteration on a large consistent linear graph lands on the ground truth (= the WLS optimum)."""
    from .graphcheck import optimize_quiet

    m = materialise(case, consistent=True)
    g = build(case, m, m["init"])
    unknowns = (m["n"] - 1) * m["d"]
    ctx.event("huge:%s:%d-edges" % (case["k"], case["T"]))
    if unknowns > 20000:
        ctx.event("huge:>20000-unknowns")
    ctx.nontrivial(True)
    chi0, _ = chi2_closed_form(m, m["init"])
    ret, _ = optimize_quiet(g, tol=0.0, max_iter=1, fix_first_pose=True, verbose=False)
    got = np.array([np.asarray(v.pose, dtype=float) for v in g._vertices])
    if not np.all(np.isfinite(got)):
        return ctx.fail(sig, "non-finite poses after one iteration on a consistent linear graph of %d edges" % case["T"])
    scale = float(np.abs(m["truth"]).max()) + 1.0
    err = float(np.abs(got - m["truth"]).max())
    tol = 1e-7 * scale
    ctx.deviation("huge graph: distance from the optimum after one step", err, tol)
    if not (err <= tol):
        return ctx.fail(sig, "after one Gauss-Newton iteration on a consistent linear graph (%s, %d edges, %d unknowns) a vertex is %.3e from the optimum (tol %.3e)" % (case["k"], case["T"], unknowns, err, tol))
    if ret.initial_chi2 is None or abs(float(ret.initial_chi2) - chi0) > 1e-9 * chi0:
        return ctx.fail(sig + ":initial-chi2", "initial_chi2=%r, closed form %r" % (ret.initial_chi2, chi0))
    if ret.final_chi2 is None or not (float(ret.final_chi2) <= 1e-12 * chi0 + 1e-300):
        return ctx.fail(sig + ":final-chi2", "final_chi2=%r after reaching the exact optimum of a consistent graph (initial %r)" % (ret.final_chi2, chi0))
    return False


def gen_roundtrip(g):
    return {"shape": "huge", "src": "huge", "T": g.choice([16384, 16385, 16500, 32769]), "seed": g.rnd.randrange(2**31), "cycles": 1}


def check_roundtrip(case, ctx, tmpdir):
    """A large SE(2) odometry graph (more than 2^14 vertex and edge lines) survives export -> import line for line."""
    import os

    rs = np.random.RandomState(case["seed"])
    T = case["T"]
    n = T + 1 - 3
    ctx.event("huge-roundtrip:%d-edges" % T)
    ctx.nontrivial(True)
    xy = np.cumsum(rs.uniform(-1, 1, (n, 2)), axis=0)
    th = rs.uniform(-3.1, 3.1, n)
    ij = [(i, i + 1) for i in range(n - 1)] + [tuple(int(x) for x in rs.choice(n, 2, replace=False)) for _ in range(3 + 1)]
    ij = ij[:T]
    verts = [gs.Vertex(i, gs.PoseSE2(xy[i].tolist(), float(th[i]))) for i in range(n)]
    zs = rs.uniform(-1, 1, (T, 3))
    ws = rs.uniform(0.5, 2.0, (T, 3))
    edges = [gs.EdgeOdometry([a, b], np.diag(ws[e]), gs.PoseSE2(zs[e, :2].tolist(), float(zs[e, 2]))) for e, (a, b) in enumerate(ij)]
    g0 = gs.Graph(edges, verts)
    path = os.path.join(tmpdir, "huge.g2o")
    g0.to_g2o(path)
    g1 = gs.Graph.from_g2o(path)
    if len(g1._vertices) != n or len(g1._edges) != T:
        return ctx.fail("roundtrip:count:large-graph", "wrote %d vertices / %d edges, read back %d / %d" % (n, T, len(g1._vertices), len(g1._edges)))
    if [v.id for v in g1._vertices] != list(range(n)):
        return ctx.fail("roundtrip:id:large-graph", "vertex ids or their order changed in a large graph")
    for k, (ea, eb) in enumerate(zip(g0._edges, g1._edges)):
        if list(ea.vertex_ids) != list(eb.vertex_ids) or gs.bits(ea.estimate) != gs.bits(eb.estimate) or gs.bits(ea.information) != gs.bits(eb.information):
            return ctx.fail("roundtrip:edge:large-graph", "edge #%d of a large graph changed in the round trip" % k)
    for k, (va, vb) in enumerate(zip(g0._vertices, g1._vertices)):
        if gs.bits(va.pose) != gs.bits(vb.pose):
            return ctx.fail("roundtrip:vertex:large-graph", "vertex #%d of a large graph changed in the round trip" % k)
    c0, c1 = float(g0.calc_chi2()), float(g1.calc_chi2())
    if not (abs(c0 - c1) <= 1e-12 * abs(c0)):
        return ctx.fail("roundtrip:chi2:large-graph", "chi2 %r became %r" % (c0, c1))
    return False
