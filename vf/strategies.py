"""Case generators, built to reach what the repository's suite never visits.

Two layers (DESIGN 3.2/3.3): every *class* choice (pose type, magnitude class, quaternion class,
angle class, sizes, flags, ...) is a Hypothesis draw, so it is shrinkable and steerable; the bulk
mantissas come from a `random.Random` whose 64-bit seed is itself a Hypothesis draw, so a case is
a pure function of the Hypothesis example (replayable), and costs ~1 ms instead of ~6 ms to build.
Replay files store the fully materialised numbers, so a replay needs neither Hypothesis nor the PRNG.

Everything returned is JSON-serialisable (lists of Python floats / ints / strs).
"""
import math
import random

import numpy as np
from hypothesis import strategies as st

PI = math.pi

SCALE_CLASSES = [0.0, 1.0, 1.0, 10.0, 10.0, 1e3, 1e6]
ANGLE_CLASSES = ["uniform", "uniform", "uniform", "near_pi", "near_pi", "special", "tiny"]
ANGLE_CLASSES_BIG = ANGLE_CLASSES + ["large", "shifted", "shifted_near_pi"]
QUAT_CLASSES = ["generic", "generic", "generic", "axis_angle", "axis_angle", "w_zero", "special", "single_axis", "w_tiny"]
SPECIAL_ANGLES = [0.0, -0.0, PI, -PI, PI / 2, -PI / 2, math.nextafter(PI, 0.0), -math.nextafter(PI, 0.0), 1.0, -1.0, 3.0, -3.0]
SPECIAL_QUATS = [
    [0.0, 0.0, 0.0, 1.0],
    [0.0, 0.0, 0.0, -1.0],
    [1.0, 0.0, 0.0, 0.0],
    [0.0, 1.0, 0.0, 0.0],
    [0.0, 0.0, 1.0, 0.0],
    [0.5, 0.5, 0.5, 0.5],
    [0.5, -0.5, 0.5, -0.5],
]


def _normalise(q):
    n = math.sqrt(math.fsum(x * x for x in q))
    if not (n > 1e-3):
        return [0.0, 0.0, 0.0, 1.0]
    q = [x / n for x in q]
    n2 = math.fsum(x * x for x in q)
    c = 1.0 + 0.5 * (1.0 - n2)  # one Newton refinement: |q| = 1 to ~1 ulp
    return [x * c for x in q]


class G:
    """Generation context inside an `st.composite`: Hypothesis draws for classes, seeded PRNG for mantissas."""

    def __init__(self, draw):
        self.draw = draw
        self.seed = draw(st.integers(min_value=0, max_value=2**64 - 1))
        self.rnd = random.Random(self.seed)

    # ---- Hypothesis-controlled (shrinkable) choices
    def choice(self, seq):
        return self.draw(st.sampled_from(seq))

    def boolean(self):
        return self.draw(st.booleans())

    def integer(self, lo, hi):
        return self.draw(st.integers(min_value=lo, max_value=hi))

    # ---- scalars
    def scale(self, max_scale=1e6):
        return self.choice([s for s in SCALE_CLASSES if s <= max_scale])

    def component(self, s):
        if s == 0.0:
            return 0.0 if self.rnd.random() < 0.5 else -0.0
        r = self.rnd.random()
        if r < 0.06:
            return self.rnd.choice([0.0, s, -s, -0.0])
        return self.rnd.uniform(-s, s)

    def vec(self, n, max_scale=1e6, s=None):
        if s is None:
            s = self.scale(max_scale)
        return [self.component(s) for _ in range(n)]

    # ---- angles
    def angle(self, big=False, cls=None):
        rnd = self.rnd
        if cls is None:
            cls = self.choice(ANGLE_CLASSES_BIG if big else ANGLE_CLASSES)
        if cls == "uniform":
            return rnd.uniform(-PI, PI)
        if cls in ("near_pi", "shifted_near_pi"):
            k = rnd.randint(1, 15)
            sgn = rnd.choice([1.0, -1.0])
            side = rnd.choice([1.0, -1.0])
            a = sgn * PI + side * 10.0 ** (-k) * rnd.uniform(0.1, 1.0)
            if cls == "shifted_near_pi":
                return a + 2.0 * PI * rnd.randint(-1000, 1000)
            if not big:
                a = max(-PI, min(PI, a))
            return a
        if cls == "special":
            return rnd.choice(SPECIAL_ANGLES)
        if cls == "tiny":
            return rnd.uniform(-1e-6, 1e-6)
        if cls == "large":
            return rnd.uniform(-1e6, 1e6)
        return rnd.uniform(-PI, PI) + 2.0 * PI * rnd.randint(-1000, 1000)

    # ---- unit quaternions [qx,qy,qz,qw]
    def unit_axis(self):
        while True:
            v = [self.rnd.gauss(0.0, 1.0) for _ in range(3)]
            n = math.sqrt(math.fsum(x * x for x in v))
            if n > 1e-3:
                return [x / n for x in v]

    def unit_quat(self, cls=None, sign=None):
        rnd = self.rnd
        if cls is None:
            cls = self.choice(QUAT_CLASSES)
        if cls == "generic":
            q = _normalise([rnd.gauss(0.0, 1.0) for _ in range(4)])
        elif cls == "axis_angle":
            ax = self.unit_axis()
            acls = rnd.choice(["zero", "tiny", "small", "generic", "generic", "pi_minus_tiny", "pi"])
            if acls == "zero":
                a = 0.0
            elif acls == "tiny":
                a = 10.0 ** rnd.uniform(-9, -6)
            elif acls == "small":
                a = rnd.choice([1.0, -1.0]) * 10.0 ** rnd.uniform(-6, -1.5)
            elif acls == "generic":
                a = rnd.uniform(-PI, PI)
            elif acls == "pi_minus_tiny":
                a = PI - 10.0 ** rnd.uniform(-9, -3)
            else:
                a = PI
            s, c = math.sin(a / 2.0), math.cos(a / 2.0)
            q = _normalise([ax[0] * s, ax[1] * s, ax[2] * s, c])
        elif cls == "w_zero":
            ax = self.unit_axis()
            q = _normalise([ax[0], ax[1], ax[2], 0.0])
            q[3] = 0.0
        elif cls == "w_tiny":
            ax = self.unit_axis()
            w = rnd.choice([1.0, -1.0]) * 10.0 ** rnd.uniform(-12, -2)
            q = _normalise([ax[0], ax[1], ax[2], w])
        elif cls == "special":
            q = list(rnd.choice(SPECIAL_QUATS))
        else:  # single_axis
            i = rnd.randint(0, 2)
            a = rnd.uniform(-PI, PI)
            q = [0.0, 0.0, 0.0, math.cos(a / 2.0)]
            q[i] = math.sin(a / 2.0)
            q = _normalise(q)
        if sign is None:
            sign = self.boolean()
        if sign:
            q = [-x for x in q]
        return q

    # ---- poses
    def pose(self, kind, max_scale=1e6, s=None, big_angle=False):
        if kind == "r2":
            return {"k": kind, "v": self.vec(2, max_scale, s)}
        if kind == "r3":
            return {"k": kind, "v": self.vec(3, max_scale, s)}
        if kind == "se2":
            return {"k": kind, "v": self.vec(2, max_scale, s) + [self.angle(big_angle)]}
        return {"k": kind, "v": self.vec(3, max_scale, s) + self.unit_quat()}

    def kind(self, kinds=("r2", "r3", "se2", "se3")):
        return self.choice(list(kinds))

    def compact_increment(self, kind, max_scale=10.0, rot_max=1.0):
        """A boxplus increment; for se3 the rotational part has norm <= rot_max (boundary included)."""
        if kind == "r2":
            return self.vec(2, max_scale)
        if kind == "r3":
            return self.vec(3, max_scale)
        if kind == "se2":
            return self.vec(2, max_scale) + [self.angle()]
        t = self.vec(3, max_scale)
        ax = self.unit_axis()
        rcls = self.choice(["zero", "tiny", "small", "generic", "generic", "boundary"])
        rnd = self.rnd
        if rcls == "zero":
            r = 0.0
        elif rcls == "tiny":
            r = 10.0 ** rnd.uniform(-12, -6)
        elif rcls == "small":
            r = 10.0 ** rnd.uniform(-6, -1)
        elif rcls == "generic":
            r = rnd.uniform(0.0, rot_max)
        else:
            r = rot_max * (1.0 - rnd.choice([0.0, 1e-15, 1e-12, 1e-9, 1e-6]))
        v = [ax[0] * r, ax[1] * r, ax[2] * r]
        while math.sqrt(math.fsum(x * x for x in v)) > rot_max or (v[0] * v[0] + v[1] * v[1] + v[2] * v[2]) > rot_max * rot_max:
            v = [x * (1.0 - 3e-16) for x in v]
        return t + v

    # ---- information matrices
    def sym_matrix(self, n, max_cond=1e8, kind="spd"):
        """Symmetric matrix Q diag(lam) Q^T (exactly symmetric).
        kind: 'spd' | 'psd' (one zero eigenvalue) | 'indef' (one negative eigenvalue) | 'diag' | 'ident' | 'blockdiag'."""
        rnd = self.rnd
        if kind == "ident":
            return np.eye(n).tolist()
        cond = self.choice([c for c in [1.0, 1e2, 1e4, 1e8] if c <= max_cond])
        base = self.choice([1e-12, 1e-8, 1e-3, 1.0, 1.0, 1e3, 1e8])
        lam = [base * (cond ** rnd.random()) for _ in range(n)]
        if n > 1:
            lam[0] = base
            lam[-1] = base * cond
            rnd.shuffle(lam)
        if kind == "psd":
            lam[rnd.randrange(n)] = 0.0
        if kind == "zero-rowcol":
            # no information at all about one (or more) error component: all-zero row and column, rest diagonal / SPD
            lam[rnd.randrange(n)] = 0.0
            if n > 2 and rnd.random() < 0.5:
                lam[rnd.randrange(n)] = 0.0
            return np.diag(lam).tolist()
        if kind == "indef":
            i = rnd.randrange(n)
            lam[i] = -lam[i]
        M = np.diag(lam)
        if kind not in ("diag",) and n > 1:
            A = np.array([[rnd.gauss(0, 1) for _ in range(n)] for _ in range(n)])
            if kind == "blockdiag" and n == 6:
                A[:3, 3:] = 0.0
                A[3:, :3] = 0.0
            Q, _ = np.linalg.qr(A)
            if kind == "blockdiag" and n == 6:
                Q[:3, 3:] = 0.0
                Q[3:, :3] = 0.0
            M = Q @ M @ Q.T
        M = (M + M.T) / 2.0
        return M.tolist()

    def ids(self, n):
        """n distinct vertex ids: small, negative, sparse, huge (> 2^63)."""
        cls = self.choice(["range", "range", "small", "huge", "mixed"])
        rnd = self.rnd
        if cls == "range":
            return list(range(n))
        out = set()
        while len(out) < n:
            if cls == "small":
                out.add(rnd.randint(-50, 50))
            elif cls == "huge":
                out.add(rnd.choice([1, -1]) * rnd.randint(2**62, 2**70))
            else:
                out.add(rnd.choice([rnd.randint(-5, 5), rnd.randint(-1000, 1000), rnd.randint(-(2**70), 2**70)]))
        out = list(out)
        rnd.shuffle(out)
        return out


def composite(fn):
    """Decorator: fn(g, *args) with g a `G`; returns a Hypothesis strategy factory."""

    @st.composite
    def strat(draw, *args, **kwargs):
        return fn(G(draw), *args, **kwargs)

    return strat
