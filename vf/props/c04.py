"""C04 - linear (R^2/R^3) graphs are solved to the global weighted-least-squares optimum."""
import numpy as np

from .. import graphcheck as GC, graphgen as GG, gs, hugegraph as HG, refgraph as RG, refmodel as R, strategies as S

ID = "C04"
RULE = (
    "R2/R3 graphs with 2..30 vertices: random tree/chain + loop closures + parallel edges + reversed edges + point-to-point landmark edges with "
    "offsets, SPD information with cross terms (cond <= 1e4), arbitrary (inconsistent) measurements, fixed subset >= 1 via flags or "
    "fix_first_pose, initial guess displaced by up to 1e6 (several free vertices may start from one shared pose object); optimize() with defaults or random tol in [1e-10,1e-2], max_iter >= 3. Oracle: independent "
    "closed form - Cholesky-whitened residual rows over the free coordinates solved with numpy.linalg.lstsq; then (history) a second problem on the same Graph object - one more vertex fixed at a new place, possibly one released, new initial guesses - against its own closed form. Non-trivial = loop, multi-edge, "
    "landmark edge with non-zero offset, >= 2 fixed, or initial guess > 1e3 away. Also: a common information scale 1e-12..1e9, the same edge object listed twice, integer / numpy fixed flags; with probability 0.4% a consistent linear graph of 4096..16385 edges (up to ~49000 unknowns) that must be solved by one step."
)
BUDGET = {"quick": 16 * 1500, "thorough": 16 * 10000}
TOLERANCES = {
    "positions": "1e-9*(1+|x*|_inf)*max(1, cond(A)^2*1e-6)",
    "final_chi2": "relative 1e-8 + 1e-9*|Omega|max*(1+S)^2 floor, against the reference chi2 at the closed-form optimum and at the returned state",
}
ASSUMPTIONS = ["numpy.linalg.lstsq / cholesky trusted", "no claim on the `converged` flag (for an exactly consistent graph the relative test may never fire)"]


@S.composite
def strategy_(g):
    if g.rnd.random() < 0.004:
        return HG.gen(g)
    case = GG.gen(
        g,
        bases=("r2", "r3"),
        n_pose=(2, 24),
        n_lm=(0, 6),
        n_loops=(0, 8),
        conds=(1.0, 1e2, 1e4),
        noise=(g.choice([0.05, 1.0, 10.0]),) * 2,
        pert=(0.3, 0.3),
        features=("parallel", "reversed", "permute", "ids", "multifixed", "rn_lm_offsets", "quat-signs", "pure-translation-steps", "info-scale", "edge-object-twice", "flag-types"),
    )
    case["resolve"] = g.choice([False, False, False, True])
    P = g.choice([0.0, 0.05, 1.0, 1.0, 1e3, 1e6])
    W = g.choice([0.0, 0.0, 0.0, 1e4, 1e7])  # a common offset of all coordinates (georeferenced data); only differences matter
    if W:
        d0 = R.PDIM[case["base"]]
        shift = [W * (1 + 0.1 * k) for k in range(d0)]
        for v in case["verts"]:
            v["truth"] = [t + sft for t, sft in zip(v["truth"], shift)] + list(v["truth"][d0:])
            v["p"]["v"] = [t + sft for t, sft in zip(v["p"]["v"], shift)]
    case["meta"]["world_offset"] = W
    ff = case["fix_first"]
    for i, v in enumerate(case["verts"]):
        if v["fixed"] or (ff and i == 0):
            continue
        v["p"]["v"] = [t + g.rnd.uniform(-P, P) for t in v["truth"]]
    case["meta"]["init_displacement"] = P
    if g.boolean():
        case["opt"] = {"tol": 10.0 ** g.rnd.uniform(-10, -2), "max_iter": g.integer(3, 12)}
    else:
        case["opt"] = None
    rnd = g.rnd
    nv = len(case["verts"])
    free = [i for i, v in enumerate(case["verts"]) if not (v["fixed"] or (ff and i == 0))]
    # several free vertices may start from ONE pose object (all unknowns initialised from the same `origin` object)
    case["alias"] = []
    if len(free) >= 2 and g.choice([False, False, True]):
        j = rnd.choice(free)
        for i in rnd.sample([x for x in free if x != j], min(len(free) - 1, rnd.randint(1, 3))):
            case["verts"][i]["p"]["v"] = list(case["verts"][j]["p"]["v"])
            case["alias"].append([i, j])
    # history: a second, different problem solved on the SAME Graph object (a vertex becomes fixed at a new place,
    # possibly another one is released, the free vertices get new initial guesses)
    case["stage2"] = None
    if len(free) >= 2 and g.choice([False, True]):
        k = rnd.choice(free)
        d = R.PDIM[case["base"]]
        release = None
        fixed_now = [i for i in range(nv) if i not in free]
        if len(fixed_now) >= 1 and rnd.random() < 0.5:
            release = rnd.choice(fixed_now)
        case["stage2"] = {"fix": k, "fix_at": [t + rnd.uniform(-2, 2) for t in case["verts"][k]["truth"][:d]], "release": release, "jitter": [[rnd.uniform(-P - 1, P + 1) for _ in range(d)] for _ in range(nv)]}
    return case


def strategy(tier):
    return strategy_()


def summarise(case):
    return case if case.get("shape") == "huge" else GG.summarise(case)


def closed_form(case, fixed):
    """Independent WLS solution.  Returns (x_star per vertex list, chi2_star, cond)."""
    verts = case["verts"]
    d = R.PDIM[case["base"]]
    idx_of = {}
    nfree = 0
    for i, v in enumerate(verts):
        if not fixed[i]:
            idx_of[i] = nfree
            nfree += d
    by_id = {v["id"]: i for i, v in enumerate(verts)}
    rows, rhs = [], []
    for e in case["edges"]:
        om = np.array(e["info"], dtype=float)
        L = np.linalg.cholesky(om)  # om = L L^T ; whitened residual L^T r
        i, j = (by_id[x] for x in e["ids"])
        z = np.array(e["z"]["v"], dtype=float)
        # residual r = c0 + sum_k coef_k * p_k
        if e["t"] == "odo":
            # z - (p_j - p_i)
            terms = [(i, 1.0), (j, -1.0)]
            c0 = z.copy()
        else:
            off = np.array(e["off"]["v"], dtype=float)
            # (p_j - (p_i + off)) - z
            terms = [(i, -1.0), (j, 1.0)]
            c0 = -off - z
        A = np.zeros((d, nfree))
        c = c0.copy()
        for (vi, coef) in terms:
            if fixed[vi]:
                c = c + coef * np.array(verts[vi]["p"]["v"], dtype=float)
            else:
                o = idx_of[vi]
                A[:, o : o + d] += coef * np.eye(d)
        rows.append(L.T @ A)
        rhs.append(-(L.T @ c))
    if nfree == 0:
        x = np.zeros(0)
        cond = 1.0
    else:
        Aall = np.vstack(rows)
        ball = np.concatenate(rhs)
        x, _, rank, sv = np.linalg.lstsq(Aall, ball, rcond=None)
        if rank < nfree:
            return None, None, float("inf")
        cond = float(sv[0] / sv[-1])
    out = []
    for i, v in enumerate(verts):
        out.append(list(v["p"]["v"]) if fixed[i] else list(x[idx_of[i] : idx_of[i] + d]))
    # chi2 at optimum (explicit)
    chi = 0.0
    for e in case["edges"]:
        om = np.array(e["info"], dtype=float)
        i, j = (by_id[t] for t in e["ids"])
        pi, pj = np.array(out[i]), np.array(out[j])
        z = np.array(e["z"]["v"], dtype=float)
        r = z - (pj - pi) if e["t"] == "odo" else (pj - pi - np.array(e["off"]["v"])) - z
        chi += float(R.chi2(list(r), om))
    return out, chi, cond


def check(case, ctx):
    if case.get("shape") == "huge":
        return HG.check_one_step(case, ctx, "not-the-wls-optimum:large-graph")
    GG.classify(case, ctx)
    m = case["meta"]
    feats = set(m["feats"])
    ff = case["fix_first"]
    fixed = GC.expected_fixed(case, ff)
    has_off = any(e["t"] == "lm" and any(x != 0 for x in e["off"]["v"]) for e in case["edges"])
    ctx.nontrivial(m["nloops"] > 0 or "parallel" in feats or has_off or sum(fixed) >= 2 or m["init_displacement"] > 1e3)
    ctx.event("init-displacement:%g" % m["init_displacement"])
    ctx.event("world-offset:%g" % m.get("world_offset", 0.0))
    ctx.event("opt:%s" % ("defaults" if case["opt"] is None else "custom"))

    xs, chi_star, cond = closed_form(case, fixed)
    if xs is None:
        ctx.event("discarded:rank-deficient")
        return
    g = GG.build(case)
    if case.get("resolve"):
        # the same measurements were solved before in another Graph (its vertices sit at the optimum now); the graph under test
        # re-uses those edge objects with fresh Vertex objects holding this case's initial guess
        ctx.event("edge-objects-reused-from-a-solved-graph")
        GC.optimize_quiet(g, fix_first_pose=ff, verbose=False)
        g = gs.Graph(g._edges, GG.build(case)._vertices)
    for i, j in case.get("alias", []):
        g._vertices[i].pose = g._vertices[j].pose  # one pose object, several vertices
    if case.get("alias"):
        ctx.event("free-vertices-share-one-pose-object")
    kw = dict(fix_first_pose=ff, verbose=False)
    if case["opt"]:
        kw.update(tol=case["opt"]["tol"], max_iter=case["opt"]["max_iter"])
    ret, _ = GC.optimize_quiet(g, **kw)
    if not GC.all_finite(g):
        return ctx.fail("nonfinite-poses", "poses not finite after optimizing a well-posed linear graph")
    xinf = max([1.0] + [abs(t) for x in xs for t in x])
    tol = 1e-9 * (1 + xinf) * max(1.0, cond * cond * 1e-6)
    worst = 0.0
    for i, (v, x) in enumerate(zip(g._vertices, xs)):
        dlt = float(np.abs(np.array(gs.stored(v.pose)) - np.array(x)).max())
        worst = max(worst, dlt)
        if not (dlt <= tol):
            return ctx.fail("not-the-wls-optimum", "vertex #%d (id %r) is %.3e from the closed-form optimum (tol %.3e, cond %.2e, init displacement %g)" % (i, v.id, dlt, tol, cond, m["init_displacement"]))
    ctx.deviation("position vs closed form", worst, tol)
    S_ = max(xinf, max(abs(t) for e in case["edges"] for t in e["z"]["v"]))
    maxinfo = max(float(np.abs(np.array(e["info"])).max()) for e in case["edges"])
    floor = 1e-9 * maxinfo * (1 + S_) ** 2
    chi_ret = RG.chi2(g)
    if ret.final_chi2 is None or not GC.rel_close(float(ret.final_chi2), chi_ret, 1e-8, floor):
        return ctx.fail("final-chi2", "final_chi2=%r but reference chi2 of returned state=%r" % (ret.final_chi2, chi_ret))
    if not GC.rel_close(float(ret.final_chi2), chi_star, 1e-8, floor):
        return ctx.fail("final-chi2-not-minimal", "final_chi2=%r but chi2 at the closed-form optimum=%r" % (ret.final_chi2, chi_star))
    ctx.deviation("final chi2 vs optimum", abs(float(ret.final_chi2) - chi_star), 1e-8 * max(abs(chi_star), abs(float(ret.final_chi2))) + floor)

    # ---- history: a second problem on the same Graph object must again be solved to ITS closed-form optimum
    st = case.get("stage2")
    if st:
        import copy

        c2 = copy.deepcopy(case)
        for i, v in enumerate(g._vertices):
            c2["verts"][i]["p"]["v"] = gs.stored(v.pose)
            c2["verts"][i]["fixed"] = bool(v.fixed)
        c2["verts"][st["fix"]]["fixed"] = True
        c2["verts"][st["fix"]]["p"]["v"] = list(st["fix_at"])
        if st["release"] is not None and st["release"] != st["fix"]:
            c2["verts"][st["release"]]["fixed"] = False
        for i, v in enumerate(c2["verts"]):
            if not v["fixed"]:
                v["p"]["v"] = [a + b for a, b in zip(v["p"]["v"], st["jitter"][i])]
        fixed2 = [bool(v["fixed"]) for v in c2["verts"]]
        if not any(fixed2):
            return
        for i, v in enumerate(g._vertices):
            v.fixed = fixed2[i]
            v.pose = gs.mk_pose(c2["verts"][i]["p"])
        xs2, chi2_star, cond2 = closed_form(c2, fixed2)
        if xs2 is None:
            ctx.event("stage2:rank-deficient-skipped")
            return
        ctx.event("stage2")
        ret2, _ = GC.optimize_quiet(g, fix_first_pose=False, verbose=False)
        if not GC.all_finite(g):
            return ctx.fail("nonfinite-poses", "second problem on the same Graph object: poses not finite")
        xinf2 = max([1.0] + [abs(t) for x in xs2 for t in x])
        tol2 = 1e-9 * (1 + xinf2) * max(1.0, cond2 * cond2 * 1e-6)
        for i, (v, x) in enumerate(zip(g._vertices, xs2)):
            dlt = float(np.abs(np.array(gs.stored(v.pose)) - np.array(x)).max())
            if not (dlt <= tol2):
                return ctx.fail("not-the-wls-optimum:second-solve-on-same-graph", "after changing the fixed set / initial guesses on the same Graph object, vertex #%d is %.3e from the closed-form optimum (tol %.3e)" % (i, dlt, tol2))
        if not GC.rel_close(float(ret2.final_chi2), chi2_star, 1e-8, 1e-9 * maxinfo * (1 + max(xinf2, S_)) ** 2):
            return ctx.fail("final-chi2-not-minimal", "second solve: final_chi2=%r but chi2 at the closed-form optimum=%r" % (ret2.final_chi2, chi2_star))
