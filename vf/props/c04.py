"""C04 - linear (R^2/R^3) graphs are solved to the global weighted-least-squares optimum."""
import numpy as np

from .. import graphcheck as GC, graphgen as GG, gs, refgraph as RG, refmodel as R, strategies as S

ID = "C04"
RULE = (
    "R2/R3 graphs with 2..30 vertices: random tree/chain + loop closures + parallel edges + reversed edges + point-to-point landmark edges with "
    "offsets, SPD information with cross terms (cond <= 1e4), arbitrary (inconsistent) measurements, fixed subset >= 1 via flags or "
    "fix_first_pose, initial guess displaced by up to 1e6; optimize() with defaults or random tol in [1e-10,1e-2], max_iter >= 3. Oracle: independent "
    "closed form - Cholesky-whitened residual rows over the free coordinates solved with numpy.linalg.lstsq. Non-trivial = loop, multi-edge, "
    "landmark edge with non-zero offset, >= 2 fixed, or initial guess > 1e3 away."
)
BUDGET = {"quick": 16 * 1500, "thorough": 16 * 10000}
TOLERANCES = {
    "positions": "1e-7*(1+|x*|_inf)*max(1, cond(A)^2*1e-6)",
    "final_chi2": "relative 1e-8 + 1e-9*|Omega|max*(1+S)^2 floor, against the reference chi2 at the closed-form optimum and at the returned state",
}
ASSUMPTIONS = ["numpy.linalg.lstsq / cholesky trusted", "no claim on the `converged` flag (for an exactly consistent graph the relative test may never fire)"]


@S.composite
def strategy_(g):
    case = GG.gen(
        g,
        bases=("r2", "r3"),
        n_pose=(2, 24),
        n_lm=(0, 6),
        n_loops=(0, 8),
        conds=(1.0, 1e2, 1e4),
        noise=(g.choice([0.05, 1.0, 10.0]),) * 2,
        pert=(0.3, 0.3),
        features=("parallel", "reversed", "permute", "ids", "multifixed", "rn_lm_offsets", "quat-signs"),
    )
    P = g.choice([0.0, 1.0, 1.0, 1e3, 1e6])
    ff = case["fix_first"]
    for i, v in enumerate(case["verts"]):
        if v["fixed"] or (ff and i == 0):
            continue
        v["p"]["v"] = [t + g.rnd.uniform(-P, P) for t in v["truth"]]
    case["meta"]["init_displacement"] = P
    if g.boolean():
        case["opt"] = {"tol": 10.0 ** g.rnd.uniform(-10, -2), "max_iter": g.integer(3, 12)}
    else:
        case["opt"] = None
    return case


def strategy(tier):
    return strategy_()


summarise = GG.summarise


def closed_form(case, fixed):
    """Independent WLS solution.  Returns (x_star per vertex list, chi2_star, cond)."""
    verts = case["verts"]
    d = R.PDIM[case["base"]]
    idx_of = {}
    nfree = 0
    for i, v in enumerate(verts):
        if not fixed[i]:
            idx_of[i] = nfree
            nfree += d
    by_id = {v["id"]: i for i, v in enumerate(verts)}
    rows, rhs = [], []
    for e in case["edges"]:
        om = np.array(e["info"], dtype=float)
        L = np.linalg.cholesky(om)  # om = L L^T ; whitened residual L^T r
        i, j = (by_id[x] for x in e["ids"])
        z = np.array(e["z"]["v"], dtype=float)
        # residual r = c0 + sum_k coef_k * p_k
        if e["t"] == "odo":
            # z - (p_j - p_i)
            terms = [(i, 1.0), (j, -1.0)]
            c0 = z.copy()
        else:
            off = np.array(e["off"]["v"], dtype=float)
            # (p_j - (p_i + off)) - z
            terms = [(i, -1.0), (j, 1.0)]
            c0 = -off - z
        A = np.zeros((d, nfree))
        c = c0.copy()
        for (vi, coef) in terms:
            if fixed[vi]:
                c = c + coef * np.array(verts[vi]["p"]["v"], dtype=float)
            else:
                o = idx_of[vi]
                A[:, o : o + d] += coef * np.eye(d)
        rows.append(L.T @ A)
        rhs.append(-(L.T @ c))
    if nfree == 0:
        x = np.zeros(0)
        cond = 1.0
    else:
        Aall = np.vstack(rows)
        ball = np.concatenate(rhs)
        x, _, rank, sv = np.linalg.lstsq(Aall, ball, rcond=None)
        if rank < nfree:
            return None, None, float("inf")
        cond = float(sv[0] / sv[-1])
    out = []
    for i, v in enumerate(verts):
        out.append(list(v["p"]["v"]) if fixed[i] else list(x[idx_of[i] : idx_of[i] + d]))
    # chi2 at optimum (explicit)
    chi = 0.0
    for e in case["edges"]:
        om = np.array(e["info"], dtype=float)
        i, j = (by_id[t] for t in e["ids"])
        pi, pj = np.array(out[i]), np.array(out[j])
        z = np.array(e["z"]["v"], dtype=float)
        r = z - (pj - pi) if e["t"] == "odo" else (pj - pi - np.array(e["off"]["v"])) - z
        chi += float(R.chi2(list(r), om))
    return out, chi, cond


def check(case, ctx):
    GG.classify(case, ctx)
    m = case["meta"]
    feats = set(m["feats"])
    ff = case["fix_first"]
    fixed = GC.expected_fixed(case, ff)
    has_off = any(e["t"] == "lm" and any(x != 0 for x in e["off"]["v"]) for e in case["edges"])
    ctx.nontrivial(m["nloops"] > 0 or "parallel" in feats or has_off or sum(fixed) >= 2 or m["init_displacement"] > 1e3)
    ctx.event("init-displacement:%g" % m["init_displacement"])
    ctx.event("opt:%s" % ("defaults" if case["opt"] is None else "custom"))

    xs, chi_star, cond = closed_form(case, fixed)
    if xs is None:
        ctx.event("discarded:rank-deficient")
        return
    g = GG.build(case)
    kw = dict(fix_first_pose=ff, verbose=False)
    if case["opt"]:
        kw.update(tol=case["opt"]["tol"], max_iter=case["opt"]["max_iter"])
    ret, _ = GC.optimize_quiet(g, **kw)
    if not GC.all_finite(g):
        return ctx.fail("nonfinite-poses", "poses not finite after optimizing a well-posed linear graph")
    xinf = max([1.0] + [abs(t) for x in xs for t in x])
    tol = 1e-7 * (1 + xinf) * max(1.0, cond * cond * 1e-6)
    worst = 0.0
    for i, (v, x) in enumerate(zip(g._vertices, xs)):
        dlt = float(np.abs(np.array(gs.stored(v.pose)) - np.array(x)).max())
        worst = max(worst, dlt)
        if not (dlt <= tol):
            return ctx.fail("not-the-wls-optimum", "vertex #%d (id %r) is %.3e from the closed-form optimum (tol %.3e, cond %.2e, init displacement %g)" % (i, v.id, dlt, tol, cond, m["init_displacement"]))
    ctx.deviation("position vs closed form", worst, tol)
    S_ = max(xinf, max(abs(t) for e in case["edges"] for t in e["z"]["v"]))
    maxinfo = max(float(np.abs(np.array(e["info"])).max()) for e in case["edges"])
    floor = 1e-9 * maxinfo * (1 + S_) ** 2
    chi_ret = RG.chi2(g)
    if ret.final_chi2 is None or not GC.rel_close(float(ret.final_chi2), chi_ret, 1e-8, floor):
        return ctx.fail("final-chi2", "final_chi2=%r but reference chi2 of returned state=%r" % (ret.final_chi2, chi_ret))
    if not GC.rel_close(float(ret.final_chi2), chi_star, 1e-8, floor):
        return ctx.fail("final-chi2-not-minimal", "final_chi2=%r but chi2 at the closed-form optimum=%r" % (ret.final_chi2, chi_star))
    ctx.deviation("final chi2 vs optimum", abs(float(ret.final_chi2) - chi_star), 1e-8 * max(abs(chi_star), abs(float(ret.final_chi2))) + floor)
