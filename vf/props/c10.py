"""C10 - public pose Jacobian methods are exact derivatives, in the documented shapes."""
import numpy as np

from .. import gs, refmodel as R, strategies as S
from ..dual import seeds, jacobian, values

ID = "C10"
RULE = (
    "Per case: a pose type, two poses, a point; every one of the 12 Jacobian methods is called and its documented shape and the "
    "compact-rows relation are asserted; one drawn method (stratified over the 8 full methods x 4 types) is compared with forward-mode AD "
    "of the independent reference operation and with Richardson central differences of the code's own operation. For R2/R3/SE2 the "
    "derivative is w.r.t. raw coordinates; for SE3 it is taken along the manifold: J_full * operand.jacobian_boxplus() == "
    "d/d(delta) op(operand [+] delta) for all 7 output rows. Non-trivial = an operand outside the suite box [0,1)^k."
)
BUDGET = {"quick": 16 * 5000, "thorough": 16 * 100000}
TOLERANCES = {
    "AD": "1e-11*(1 + S*[translation row]*[rotation column])",
    "CD": "1e-8*(1+S) translation rows, 1e-8 rotation rows",
    "compact": "bit-identical to the first COMPACT_DIMENSIONALITY rows of the full Jacobian",
}
ASSUMPTIONS = [
    "reference model + AD trusted after self-test",
    "the ambient derivative in the radial quaternion direction is implementation-specific and not claimed by the property; only tangent directions are checked for SE(3)",
]

H = 2.0**-10
METHODS = ["oplus_self", "oplus_other", "ominus_self", "ominus_other", "boxplus", "point_self", "point_point", "inverse"]


@S.composite
def strategy_(g):
    k = g.kind()
    s = g.scale()
    case = {
        "k": k,
        "m": g.choice(METHODS),
        "a": g.pose(k, s=s),
        "b": g.pose(k, s=g.choice([s, 1.0])),
        "pt": g.pose(R.POINT_OF[k], s=g.choice([s, 1.0])),
    }
    if g.choice([False] * 5 + [True]):
        # whole-number / dyadic coordinates, the two poses sharing their rotation bitwise, with translation differences that cancel
        # in a sum ((1,-1,0), (0.5,0,-0.5), (2,-1,-1), ...) or vanish: exact special values of the kind real data has
        n = R.PDIM[k]
        base_t = [float(g.rnd.randint(-4, 4)) for _ in range(n)]
        diffs3 = [(1, -1, 0), (0.5, 0, -0.5), (2, -1, -1), (0, 0, 0), (-3, 1, 2), (0.25, -0.25, 0)]
        d3 = list(g.rnd.choice(diffs3))
        g.rnd.shuffle(d3)
        dd = d3[:n] if n == 3 else g.rnd.choice([[1.0, -1.0], [0.5, -0.5], [0.0, 0.0], [-2.0, 2.0]])
        case["a"]["v"][:n] = [t + d for t, d in zip(base_t, dd)]
        case["b"]["v"][:n] = base_t
        case["b"]["v"][n:] = list(case["a"]["v"][n:])
        case["pt"]["v"][:n] = [t - d for t, d in zip(base_t, dd)]
        case["special_values"] = True
    case["same_object"] = g.choice([False, False, True])
    # R^n poses / points keep a view of the caller's float64 array: they may be slices of a longer buffer (a landmark table)
    case["views"] = g.choice([False, False, True])
    if g.choice([False, False, False, True]):
        # two poses a few units apart at a large common magnitude (georeferenced coordinates), any rotation difference
        n = R.PDIM[k]
        case["b"]["v"][:n] = [t + g.rnd.uniform(-3, 3) for t in case["a"]["v"][:n]]
        case["pt"]["v"][:n] = [t + g.rnd.uniform(-3, 3) for t in case["a"]["v"][:n]]
    return case


def strategy(tier):
    return strategy_()


def _expected_shapes(k):
    n, c, p = R.DIM[k], R.CDIM[k], R.PDIM[k]
    return n, c, p


def _op_code(m, a, b, pt):
    """The code's own operation as a function of the perturbed operand (returns np array)."""
    if m == "oplus_self":
        return lambda x: np.asarray(x + b, dtype=float)
    if m == "oplus_other":
        return lambda x: np.asarray(a + x, dtype=float)
    if m == "ominus_self":
        return lambda x: np.asarray(x - b, dtype=float)
    if m == "ominus_other":
        return lambda x: np.asarray(a - x, dtype=float)
    if m == "point_self":
        return lambda x: np.asarray(x + pt, dtype=float)
    if m == "point_point":
        return lambda x: np.asarray(a + x, dtype=float)
    if m == "inverse":
        return lambda x: np.asarray(x.inverse, dtype=float)
    raise KeyError(m)


def _op_ref(m, k, ra, rb, rpt):
    if m == "oplus_self":
        return lambda x: R.mul(k, x, rb)
    if m == "oplus_other":
        return lambda x: R.mul(k, ra, x)
    if m == "ominus_self":
        return lambda x: R.ominus(k, x, rb)
    if m == "ominus_other":
        return lambda x: R.ominus(k, ra, x)
    if m == "point_self":
        return lambda x: R.act(k, x, rpt)
    if m == "point_point":
        return lambda x: R.act(k, ra, x)
    if m == "inverse":
        return lambda x: R.inv(k, x)
    raise KeyError(m)


def _align_out(k, out_kind, v, v0):
    """Make a perturbed output comparable with the base output (SE2 angle wrap; SE3 quaternion sign)."""
    v = v.copy()
    if out_kind == "se2":
        v[2] = v0[2] + R.wrap(v[2] - v0[2])
    elif out_kind == "se3":
        if float(np.dot(v[3:], v0[3:])) < 0:
            v[3:] = -v[3:]
    return v


def check(case, ctx):
    k, m = case["k"], case["m"]
    a, b, pt = gs.mk_pose(case["a"]), gs.mk_pose(case["b"]), gs.mk_pose(case["pt"])
    if case.get("views"):
        ctx.event("euclidean-operands-are-slices-of-a-longer-buffer")

        def as_slice(p, lead):
            vals = np.asarray(p, dtype=np.float64)
            buf = np.concatenate([np.linspace(7.0, 9.0, lead), vals, np.linspace(-5.0, -4.0, 4)])
            return type(p)(buf[lead : lead + len(vals)])

        pt = as_slice(pt, 3)
        if k in ("r2", "r3"):
            a, b = as_slice(a, 5), as_slice(b, 2)
    S_ = gs.max_trans(case["a"], case["b"], case["pt"])
    ctx.nontrivial(any(gs.outside_suite_box(case[x]) for x in ("a", "b", "pt")))
    ctx.event("%s:%s" % (k, m))
    if case.get("special_values"):
        ctx.event("dyadic-coordinates-with-cancelling-differences")
    if k == "se3":
        if case["a"]["v"][6] < 0 or case["b"]["v"][6] < 0:
            ctx.event("w<0")
        if case["a"]["v"][6] == 0 or case["b"]["v"][6] == 0:
            ctx.event("w==0")
    if S_ > 1e3:
        ctx.event("S>1e3")
    if _run(case, ctx, a, b, pt, S_, ""):
        return
    if case.get("same_object"):
        # ONE pose object as both operands (p (+) p, p (-) p: two vertices initialised from one shared pose): the partial
        # derivative with respect to the named operand, the other occurrence held fixed
        ctx.event("same-object-as-both-operands")
        if _run(case, ctx, a, a, pt, S_, " (the same object as both operands)"):
            return
    # history: the same pose objects modified in place (poses are ndarrays; normalize() does exactly that) - the
    # Jacobians must follow the current contents, not anything remembered from the calls above
    for obj in (a, b, pt):
        arr = np.asarray(obj)
        arr[0] = 0.5 * arr[0] - 0.75
        arr[1] = -arr[1]
    if k == "se3":
        # plain slice assignment of another unit quaternion (no normalize() call, which a cache might hook into)
        qa, qb = np.array(np.asarray(a)[3:]), np.array(np.asarray(b)[3:])
        np.asarray(a)[3:] = -qb
        np.asarray(b)[3:] = qa[[1, 2, 0, 3]] * np.array([1.0, -1.0, 1.0, -1.0])
    elif k == "se2":
        np.asarray(a)[2] *= -0.5
        np.asarray(b)[2] = 0.25 * np.asarray(b)[2] + 0.5
    S2 = max(S_, 1.0)
    _run(case, ctx, a, b, pt, S2, " (after in-place change)")


def _run(case, ctx, a, b, pt, S_, label):
    """Shapes, compact rows and exact-derivative check at the current contents of a, b, pt.  Returns True on failure."""
    k, m = case["k"], case["m"]
    second = bool(label)
    ra, rb, rpt = gs.stored(a), gs.stored(b), gs.stored(pt)
    n, c, p = _expected_shapes(k)
    pk = R.POINT_OF[k]
    bits0 = (gs.bits(a), gs.bits(b), gs.bits(pt))

    # ---- documented shapes and the compact-rows relation, all 12 methods
    full = {
        "oplus_self": (a.jacobian_self_oplus_other_wrt_self(b), (n, n)),
        "oplus_other": (a.jacobian_self_oplus_other_wrt_other(b), (n, n)),
        "ominus_self": (a.jacobian_self_ominus_other_wrt_self(b), (n, n)),
        "ominus_other": (a.jacobian_self_ominus_other_wrt_other(b), (n, n)),
        "boxplus": (a.jacobian_boxplus(), (n, c)),
        "point_self": (a.jacobian_self_oplus_point_wrt_self(pt), (p, n)),
        "point_point": (a.jacobian_self_oplus_point_wrt_point(pt), (p, p)),
        "inverse": (a.jacobian_inverse(), (n, n)),
    }
    compact = {
        "oplus_self": a.jacobian_self_oplus_other_wrt_self_compact(b),
        "oplus_other": a.jacobian_self_oplus_other_wrt_other_compact(b),
        "ominus_self": a.jacobian_self_ominus_other_wrt_self_compact(b),
        "ominus_other": a.jacobian_self_ominus_other_wrt_other_compact(b),
    }
    for name, (J, shp) in full.items():
        J = np.asarray(J)
        if J.shape != shp:
            return ctx.fail("shape", "%s.%s has shape %s, documented %s" % (k, name, J.shape, shp))
        if not np.all(np.isfinite(J)):
            return ctx.fail("nonfinite", "%s.%s has non-finite entries" % (k, name))
    # every call returns an independent array: modifying a returned Jacobian in place (custom edges do) must not
    # change what a later call returns
    again = {
        "oplus_self": lambda: a.jacobian_self_oplus_other_wrt_self(b),
        "oplus_other": lambda: a.jacobian_self_oplus_other_wrt_other(b),
        "ominus_self": lambda: a.jacobian_self_ominus_other_wrt_self(b),
        "ominus_other": lambda: a.jacobian_self_ominus_other_wrt_other(b),
        "boxplus": lambda: a.jacobian_boxplus(),
        "point_self": lambda: a.jacobian_self_oplus_point_wrt_self(pt),
        "point_point": lambda: a.jacobian_self_oplus_point_wrt_point(pt),
        "inverse": lambda: a.jacobian_inverse(),
        "oplus_self_compact": lambda: a.jacobian_self_oplus_other_wrt_self_compact(b),
        "oplus_other_compact": lambda: a.jacobian_self_oplus_other_wrt_other_compact(b),
        "ominus_self_compact": lambda: a.jacobian_self_ominus_other_wrt_self_compact(b),
        "ominus_other_compact": lambda: a.jacobian_self_ominus_other_wrt_other_compact(b),
    }
    if not second:
        for name, f in again.items():
            J1 = f()
            keep = np.array(J1, dtype=float)
            try:
                np.asarray(J1)[...] = np.asarray(J1) * -7.0 + 3.0
            except ValueError:
                pass  # a read-only result cannot be corrupted by the caller
            J2 = np.asarray(f(), dtype=float)
            if J2.shape != keep.shape or not np.array_equal(J2, keep):
                return ctx.fail("jacobian-result-shared-between-calls", "%s.%s: modifying a returned matrix in place changed the result of the next call" % (k, name))
    for name, Jc in compact.items():
        Jc = np.asarray(Jc, dtype=float)
        Jf = np.asarray(full[name][0], dtype=float)
        if Jc.shape != (c, n):
            return ctx.fail("shape", "%s.%s_compact has shape %s, documented %s" % (k, name, Jc.shape, (c, n)))
        if gs.bits(Jc) != gs.bits(Jf[:c]) and not np.array_equal(Jc, Jf[:c]):
            return ctx.fail("compact-rows", "%s.%s_compact is not the first %d rows of the full Jacobian" % (k, name, c))

    # ---- exact derivative of the drawn method
    J = np.asarray(full[m][0], dtype=float)
    if m == "boxplus":
        d = seeds(c)
        out = R.boxplus(k, ra, d)
        Jref = jacobian(out, c)
        rowT = np.array([1.0 if i < p else 0.0 for i in range(n)])
        colR = np.array([0.0 if j < p else 1.0 for j in range(c)]) if k in ("se2", "se3") else np.zeros(c)
        tol = 1e-11 * (1.0 + S_ * rowT[:, None] * colR[None, :])
        if ctx.check_close("boxplus-vs-AD", "%s.jacobian_boxplus vs AD%s" % (k, label), J, Jref, tol):
            return True
        base = np.asarray(a, dtype=float)

        def f(dl):
            return _align_out(k, k, np.asarray(a + dl, dtype=float), base)

        if not second:
            Jcd = _richardson(f, c)
            tol1 = 1e-8 * (1.0 + S_ * rowT[:, None] * np.ones(c)[None, :])
            if ctx.check_close("boxplus-vs-CD", "%s.jacobian_boxplus vs CD" % k, J, Jcd, tol1):
                return True
    else:
        # which operand is perturbed, and its kind
        if m in ("oplus_self", "ominus_self", "point_self", "inverse"):
            x0, rx, xk = a, ra, k
        elif m in ("oplus_other", "ominus_other"):
            x0, rx, xk = b, rb, k
        else:  # point_point
            x0, rx, xk = pt, rpt, pk
        out_kind = pk if m in ("point_self", "point_point") else k
        cx = R.CDIM[xk]
        fref = _op_ref(m, k, ra, rb, rpt)
        d = seeds(cx)
        outd = fref(R.boxplus(xk, rx, d))
        Jref = jacobian(outd, cx)
        vref = values(outd)
        fcode = _op_code(m, a, b, pt)
        v0 = fcode(x0)
        # chain with the operand's boxplus Jacobian (identity for Euclidean operands)
        if xk == "se3":
            Jm = J @ np.asarray(x0.jacobian_boxplus(), dtype=float)
        elif xk == "se2":
            # raw-coordinate derivative; the reference boxplus for SE(2) moves the translation in the body frame,
            # so compare J * d(boxplus)/d(delta) with the reference's manifold derivative
            Jm = J @ np.asarray(x0.jacobian_boxplus(), dtype=float)
        else:
            Jm = J
        # sign / wrap alignment of the reference output with the code's output
        if out_kind == "se3":
            if float(np.dot(vref[3:], v0[3:])) < 0:
                Jref[3:] = -Jref[3:]
        no = len(v0)
        po = R.PDIM[out_kind]
        rowT = np.array([1.0 if i < po else 0.0 for i in range(no)])
        colR = np.array([0.0 if j < R.PDIM[xk] else 1.0 for j in range(cx)]) if xk in ("se2", "se3") else np.zeros(cx)
        # d(translation out)/d(translation in) is O(1) except for ominus/inverse wrt a pose whose own translation enters
        tol = 1e-11 * (1.0 + S_ * rowT[:, None] * colR[None, :])
        if ctx.check_close("jacobian-vs-AD", "%s.%s vs AD%s" % (k, m, label), Jm, Jref, tol):
            return True
        if xk == "se2":
            # additionally the literal raw-coordinate statement for SE(2): d op / d(x, y, theta)
            draw = seeds(3)
            outr = fref([rx[0] + draw[0], rx[1] + draw[1], rx[2] + draw[2]])
            if ctx.check_close("jacobian-vs-AD", "%s.%s vs AD (raw coordinates)" % (k, m), J, jacobian(outr, 3), tol):
                return True

        def f(dl):
            return _align_out(k, out_kind, fcode(x0 + dl), v0)

        if not second:
            Jcd = _richardson(f, cx)
            tol1 = 1e-8 * (1.0 + S_ * rowT[:, None] * np.ones(cx)[None, :])
            if ctx.check_close("jacobian-vs-CD", "%s.%s vs CD" % (k, m), Jm, Jcd, tol1):
                return True

    if (gs.bits(a), gs.bits(b), gs.bits(pt)) != bits0:
        return ctx.fail("operand-mutated", "a Jacobian method changed its operands")
    return False

def _richardson(f, c):
    def D(h):
        cols = []
        for j in range(c):
            d = np.zeros(c)
            d[j] = h
            cols.append((f(d) - f(-d)) / (2.0 * h))
        return np.array(cols).T

    return (4.0 * D(H / 2.0) - D(H)) / 3.0
