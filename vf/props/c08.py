"""C08 - results do not depend on representation choices of the same physical graph."""
import copy
import math

import numpy as np

from .. import graphcheck as GC, graphgen as GG, gs, refgraph as RG, refmodel as R, strategies as S
from .c02 import _chi2_tol
from .c07 import _tol_err

ID = "C08"
RULE = (
    "Metamorphic: a generated base graph (as C07) and one drawn representation change: (a) vertex-list permutation keeping the same vertices "
    "fixed; (b) edge-list permutation; (c) injective id relabelling to negative / sparse / >2^63 ids; (d) theta -> theta + 2*pi*k on a subset of "
    "SE2 vertices, measurements, offsets; (e) q -> -q on a subset of SE3 vertices, measurements, offsets, with information matrices with and "
    "without translation-rotation cross terms; (f) one edge replaced by two copies carrying half the information; (g) all information scaled by "
    "c in [1e-3,1e3]. chi2 must be equal ((g): scaled by c); after optimize(tol=0,max_iter=k), k in 1..6, and after a default optimize(), "
    "corresponding vertices are equal as physical poses and the reports agree. Non-trivial = the change is not the identity and, for (e), some "
    "information matrix has a translation-rotation cross term >= 1e-2 of its diagonal."
)
BUDGET = {"quick": 16 * 500, "thorough": 16 * 6000}
TOLERANCES = {
    "chi2": "sum over edges of (1e-9*A + propagation of 1e-10*(1+S) error differences); (g): after dividing by c",
    "poses": "1e-8*(1+S)*max(1, cond(H_ff)*1e-4) translation, 1e-8*max(1,cond*1e-4) rotation (mod 2pi / up to sign)",
    "report": "num_iterations/converged equal unless a stopping comparison is within 1e-6 relative of its threshold or chi2 has collapsed to rounding noise (ambiguous, counted)",
}
ASSUMPTIONS = ["trajectory comparison restricted to the convergence neighbourhood of C05", "(e): edges whose error quaternion has |w| < 1e-6 are counted and skipped (sign undefined at a 180-degree residual)"]

TRANSFORMS = ["perm-vertices", "perm-edges", "relabel", "shift-2pi", "negate-quat", "negate-quat", "split-edge", "scale-info"]


@S.composite
def strategy_(g):
    tr = g.choice(TRANSFORMS)
    kw = dict(n_pose=(2, 8), n_lm=(0, 3), n_loops=(0, 3), conds=(1.0, 1e2), noise=(0.05, 0.05), pert=(0.3, 0.3), features=("parallel", "reversed", "permute", "ids", "multifixed", "rn_lm_offsets", "quat-signs", "pure-translation-steps", "lm_odo", "near-identity-orientations", "info-scale", "flag-types"), allow_zero_noise=False)
    if tr == "shift-2pi":
        kw["bases"] = ("se2",)
    if tr == "negate-quat":
        kw["bases"] = ("se3",)
        kw["info_kinds"] = ("spd", "spd", "spd", "blockdiag")
    case = GG.gen(g, **kw)
    rnd = g.rnd
    nv, ne = len(case["verts"]), len(case["edges"])
    case["tr"] = tr
    p = {}
    if tr == "perm-vertices":
        perm = list(range(nv))
        rnd.shuffle(perm)
        p["perm"] = perm
    elif tr == "perm-edges":
        perm = list(range(ne))
        rnd.shuffle(perm)
        p["perm"] = perm
    elif tr == "relabel":
        p["new_ids"] = g.ids(nv)
    elif tr == "shift-2pi":
        p["verts"] = [rnd.choice([0, 0, 1, -1, 3, -1000, 1000]) for _ in range(nv)]
        p["meas"] = [rnd.choice([0, 0, 1, -1, 2, -500]) for _ in range(ne)]
        p["offs"] = [rnd.choice([0, 0, 1, -1]) for _ in range(ne)]
    elif tr == "negate-quat":
        p["verts"] = [rnd.random() < 0.5 for _ in range(nv)]
        p["meas"] = [rnd.random() < 0.5 for _ in range(ne)]
        p["offs"] = [rnd.random() < 0.5 for _ in range(ne)]
    elif tr == "split-edge":
        p["edge"] = rnd.randrange(ne)
    elif tr == "scale-info":
        p["c"] = 10.0 ** rnd.uniform(-3, 3)
    case["trp"] = p
    # for the two permutations the second representation may be built from the SAME edge objects (a re-ordered list of them) and
    # fresh Vertex objects, after the first representation has already been optimised
    case["reuse_edge_objects"] = tr in ("perm-vertices", "perm-edges") and g.choice([False, True])
    case["k"] = g.integer(1, 6)
    return case


def strategy(tier):
    return strategy_()


def summarise(case):
    s = GG.summarise(case)
    s["transform"] = case["tr"]
    s["params"] = case["trp"]
    s["k"] = case["k"]
    return s


def apply_transform(case):
    """Returns (case2, vertex_map, scale) where vertex_map[i] = index in case2 of case's vertex i."""
    tr, p = case["tr"], case["trp"]
    c2 = copy.deepcopy(case)
    nv = len(case["verts"])
    vmap = list(range(nv))
    scale = 1.0
    if tr == "perm-vertices":
        perm = p["perm"]
        c2["verts"] = [copy.deepcopy(case["verts"][i]) for i in perm]
        vmap = [perm.index(i) for i in range(nv)]
    elif tr == "perm-edges":
        c2["edges"] = [copy.deepcopy(case["edges"][i]) for i in p["perm"]]
    elif tr == "relabel":
        old = [v["id"] for v in case["verts"]]
        m = dict(zip(old, p["new_ids"]))
        for v in c2["verts"]:
            v["id"] = m[v["id"]]
        for e in c2["edges"]:
            e["ids"] = [m[i] for i in e["ids"]]
    elif tr == "shift-2pi":
        for v, k in zip(c2["verts"], p["verts"]):
            if v["p"]["k"] == "se2":
                v["p"]["v"][2] += 2 * math.pi * k
        for e, k, ko in zip(c2["edges"], p["meas"], p["offs"]):
            if isinstance(e["z"], dict) and e["z"]["k"] == "se2":
                e["z"]["v"][2] += 2 * math.pi * k
            if e.get("off") and e["off"]["k"] == "se2":
                e["off"]["v"][2] += 2 * math.pi * ko
    elif tr == "negate-quat":
        for v, f in zip(c2["verts"], p["verts"]):
            if f and v["p"]["k"] == "se3":
                v["p"]["v"][3:] = [-x for x in v["p"]["v"][3:]]
        for e, f, fo in zip(c2["edges"], p["meas"], p["offs"]):
            if f and isinstance(e["z"], dict) and e["z"]["k"] == "se3":
                e["z"]["v"][3:] = [-x for x in e["z"]["v"][3:]]
            if fo and e.get("off") and e["off"]["k"] == "se3":
                e["off"]["v"][3:] = [-x for x in e["off"]["v"][3:]]
    elif tr == "split-edge":
        i = p["edge"]
        e = c2["edges"][i]
        half = (np.array(e["info"]) / 2.0).tolist()
        e["info"] = half
        e2 = copy.deepcopy(e)
        c2["edges"].insert(i + 1, e2)
    elif tr == "scale-info":
        scale = p["c"]
        for e in c2["edges"]:
            e["info"] = (np.array(e["info"]) * scale).tolist()
    return c2, vmap, scale


def _has_cross_terms(case):
    for e in case["edges"]:
        om = np.array(e["info"])
        if om.shape == (6, 6):
            d = np.sqrt(np.abs(np.diag(om)))
            rel = np.abs(om[:3, 3:]) / (d[:3, None] * d[None, 3:] + 1e-300)
            if rel.max() >= 1e-2:
                return True
    return False


def _identity_transform(case):
    tr, p = case["tr"], case["trp"]
    if tr in ("perm-vertices", "perm-edges"):
        return p["perm"] == sorted(p["perm"])
    if tr == "relabel":
        return p["new_ids"] == [v["id"] for v in case["verts"]]
    if tr == "shift-2pi":
        return not (any(p["verts"]) or any(p["meas"]) or any(p["offs"]))
    if tr == "negate-quat":
        return not (any(p["verts"]) or any(p["meas"]) or any(p["offs"]))
    return False


def _report_ambiguous(ret, tol, rel_noise=1e-9, abs_noise=0.0):
    """True if any stopping comparison of the run is within the noise of its threshold or chi2 collapsed to noise.
    rel_noise / abs_noise: how much the chi2 values of the two runs being compared may legitimately differ."""
    chis = [ret.initial_chi2] + [it.chi2 for it in ret.iteration_results if it.chi2 is not None]
    if any(c is None or not np.isfinite(c) for c in chis):
        return True
    for a, b in zip(chis[:-1], chis[1:]):
        if a <= 1e-18 * (1 + chis[0]) or b <= 1e-18 * (1 + chis[0]):
            return True
        noise = rel_noise * max(a, b) + abs_noise
        rel = (a - b) / (a + 2.0**-52)
        if abs(rel - tol) <= 1e-6 * max(tol, 1e-12) + 10.0 * noise / a:
            return True
        if abs(a - b) <= 10.0 * noise:
            return True  # chi2 <= chi2_prev decided by rounding
    return False


def check(case, ctx):
    GG.classify(case, ctx)
    tr = case["tr"]
    ctx.event("transform:" + tr)
    base = case["base"]
    S_ = GG.S_of(case)
    cross = _has_cross_terms(case)
    if tr == "negate-quat":
        ctx.event("negate-quat:" + ("cross-terms" if cross else "block-diagonal"))
    ident = _identity_transform(case)
    ctx.nontrivial((not ident) and (tr != "negate-quat" or cross))

    # fix_first is expressed through flags so that a vertex permutation keeps the same vertices fixed
    c1 = copy.deepcopy(case)
    ffp = False
    if c1["fix_first"]:
        if tr == "perm-vertices":
            c1["verts"][0]["fixed"] = True  # a permutation must keep the same vertices fixed: express it through flags
        else:
            ffp = True  # the first listed vertex is the same physical vertex in both representations
            ctx.event("fix_first_pose=True")
    c1["fix_first"] = False
    c1["tr"], c1["trp"] = case["tr"], case["trp"]
    c2, vmap, scale = apply_transform(c1)
    g1, g2 = GG.build(c1), GG.build(c2)

    # skip (e) at 180-degree residuals
    if tr == "negate-quat":
        for e in g1._edges:
            if isinstance(e, gs.EdgeOdometry) and gs.kind_of(e.estimate) == "se3":
                err = e.estimate - (e.vertices[1].pose - e.vertices[0].pose)
                if abs(float(err[6])) < 1e-6:
                    ctx.event("skipped:180deg-residual")
                    return

    # ---- chi2
    tol_sum = 0.0
    for e in g1._edges:
        tag = RG.edge_descr(e)[0]
        te = _tol_err(tag, S_) if tag in ("odo:r2", "odo:r3", "odo:se2", "odo:se3", "lm:se2", "lm:se3", "lm:r2", "lm:r3") else 1e-10 * (1 + S_)
        tol_sum += _chi2_tol(np.array(e.calc_error(), dtype=float), np.array(e.information), te)
    x1, x2 = float(g1.calc_chi2()), float(g2.calc_chi2()) / scale
    ctx.deviation("chi2", abs(x1 - x2), tol_sum)
    if not (abs(x1 - x2) <= tol_sum):
        return ctx.fail("chi2-representation-dependent:" + tr, "chi2 %r vs %r (after /c) under %s (tol %.3e)" % (x1, x2, tr, tol_sum))

    # ---- trajectories
    fixed = GC.expected_fixed(c1, ffp)
    sys0 = RG.system(g1)
    free = RG.free_indices(g1, fixed)
    cond = float(np.linalg.cond(sys0["H"][np.ix_(free, free)])) if len(free) else 1.0
    if not np.isfinite(cond) or cond > 1e8:
        ctx.event("discarded:ill-conditioned")
        return
    amp = max(1.0, cond * 1e-4)

    def compare(ga, gb, what):
        worst_t = worst_r = 0.0
        for i, va in enumerate(ga._vertices):
            vb = gb._vertices[vmap[i]]
            kk = gs.kind_of(va.pose)
            if gs.kind_of(vb.pose) != kk:
                return ctx.fail("vertex-correspondence:" + tr, "vertex #%d changed type" % i)
            dt, dr = GC.pose_diff(kk, gs.stored(va.pose), gs.stored(vb.pose))
            tt, trr = 1e-8 * (1 + S_) * amp, 1e-8 * amp
            worst_t, worst_r = max(worst_t, dt / tt), max(worst_r, dr / trr)
            if not (dt <= tt and dr <= trr):
                return ctx.fail("result-representation-dependent:" + tr, "vertex #%d %s differs by (%.3e, %.3e), tol (%.3e, %.3e)" % (i, what, dt, dr, tt, trr))
        ctx.deviation("poses translation", worst_t, 1.0)
        ctx.deviation("poses rotation", worst_r, 1.0)
        return False

    k = case["k"]
    # point-to-point constraints between landmarks (R^n odometry edges in an SE(n) graph): Gauss-Newton need not settle there
    # (DESIGN corrections), so only the first two iterations are compared and the run-to-convergence part is left out
    roles = {v["id"]: v["role"] for v in case["verts"]}
    lm_odo = base in ("se2", "se3") and any(e["t"] == "odo" and all(roles[i] == "lm" for i in e["ids"]) for e in case["edges"])
    if lm_odo:
        ctx.event("landmark-to-landmark-edges:first-two-iterations-only")
        k = min(k, 2)
    ra, _ = GC.optimize_quiet(g1, tol=0.0, max_iter=k, fix_first_pose=ffp, verbose=False)
    if case.get("reuse_edge_objects"):
        ctx.event("second-representation-reuses-the-edge-objects")
        fresh = GG.build(c2)
        order = case["trp"]["perm"] if tr == "perm-edges" else list(range(len(g1._edges)))
        g2 = gs.Graph([g1._edges[i] for i in order], fresh._vertices)
        x2b = float(g2.calc_chi2()) / scale
        if not (abs(x1 - x2b) <= tol_sum):
            return ctx.fail("chi2-representation-dependent:" + tr, "chi2 %r (first representation, before optimisation) vs %r (re-ordered lists of the same edge objects over fresh vertices), tol %.3e" % (x1, x2b, tol_sum))
    rb, _ = GC.optimize_quiet(g2, tol=0.0, max_iter=k, fix_first_pose=ffp, verbose=False)
    if not GC.all_finite(g1):
        ctx.event("discarded:nonfinite-base-run")
        return
    if not GC.all_finite(g2):
        return ctx.fail("result-representation-dependent:" + tr, "transformed graph produced non-finite poses")
    if compare(g1, g2, "after %d iteration(s)" % k):
        return
    if ra.num_iterations != rb.num_iterations:
        return ctx.fail("report-representation-dependent:" + tr, "num_iterations %r vs %r with tol=0" % (ra.num_iterations, rb.num_iterations))
    # chi2 sequences
    sa = [ra.initial_chi2] + [it.chi2 for it in ra.iteration_results]
    sb = [rb.initial_chi2] + [it.chi2 for it in rb.iteration_results]
    if len(sa) != len(sb):
        return ctx.fail("report-representation-dependent:" + tr, "iteration_results lengths %d vs %d" % (len(sa), len(sb)))
    for j, (a, b) in enumerate(zip(sa, sb)):
        if a is None or b is None:
            if (a is None) != (b is None):
                return ctx.fail("report-representation-dependent:" + tr, "chi2[%d] %r vs %r" % (j, a, b))
            continue
        b = b / scale
        if not (abs(a - b) <= 1e-6 * amp * max(abs(a), abs(b)) + tol_sum):
            return ctx.fail("report-representation-dependent:" + tr, "chi2[%d] %r vs %r (after /c)" % (j, a, b))

    # ---- default optimize() from the start
    if lm_odo:
        return
    g1, g2 = GG.build(c1), GG.build(c2)
    ra, _ = GC.optimize_quiet(g1, fix_first_pose=ffp, verbose=False)
    rb, _ = GC.optimize_quiet(g2, fix_first_pose=ffp, verbose=False)
    if [bool(v.fixed) for v in g1._vertices] != [bool(g2._vertices[vmap[i]].fixed) for i in range(len(g1._vertices))]:
        return ctx.fail("result-representation-dependent:" + tr, "different vertices are marked fixed after optimize() in the two representations")
    if not GC.all_finite(g1):
        ctx.event("discarded:nonfinite-default-run")
        return
    if (ra.num_iterations, bool(ra.converged)) != (rb.num_iterations, bool(rb.converged)):
        # different stopping iterations are legitimate only when a stopping comparison lies within rounding noise of its threshold
        amb = _report_ambiguous(ra, 1e-4, 1e-9 * amp, tol_sum) or _report_ambiguous(rb, 1e-4, 1e-9 * amp, tol_sum * scale)
        if amb:
            ctx.event("ambiguous:stopping-threshold")
            return
        return ctx.fail("report-representation-dependent:" + tr, "default optimize(): (num_iterations, converged) = %r vs %r" % ((ra.num_iterations, ra.converged), (rb.num_iterations, rb.converged)))
    if compare(g1, g2, "after default optimize()"):
        return
    if not GC.rel_close(float(ra.final_chi2), float(rb.final_chi2) / scale, 1e-6 * amp, tol_sum):
        return ctx.fail("report-representation-dependent:" + tr, "final_chi2 %r vs %r (after /c)" % (ra.final_chi2, rb.final_chi2 / scale))
