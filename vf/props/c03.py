"""C03 - one optimizer iteration is exactly the Gauss-Newton step."""
import numpy as np

from .. import graphcheck as GC, graphgen as GG, gs, hugegraph as HG, refgraph as RG, refmodel as R, strategies as S

ID = "C03"
RULE = (
    "Graph cases of 2..11 vertices over every family (R2, R3, SE2, SE3, each optionally with landmarks => mixed dimensionality), spanning "
    "tree/chain + loop closures + parallel edges + edges listing the later vertex first + custom unary (prior) / binary (relpose) / ternary "
    "(midpoint, equal-step) edges with analytic Jacobians, permuted vertex list, arbitrary ids, 0..3 extra fixed vertices, fix_first_pose in "
    "{T,F}; every component holds a fixed pose. Oracle: optimize(tol=0,max_iter=1), recover the applied increment per vertex with the reference "
    "model and compare with the dense reference normal equations (AD Jacobians, explicit loops, numpy.linalg.solve). "
    "Non-trivial = parallel edge, reversed edge, mixed dimensions, >=2 fixed vertices or an n-ary custom edge; distinct = hash of the case. Also: edge objects re-used from an earlier graph that has moved since (multi-start); a common information scale 1e-12..1e9; the same edge object listed twice; integer / numpy fixed flags; with probability 0.4% a consistent linear graph of 4096..16385 edges (up to ~49000 unknowns) on which one step must land on the ground truth. In half of the multi-iteration cases the fixed set is edited on the live Graph between iteration 1 and 2 (one free vertex marked fixed / one fixed vertex released): each iteration must be the step of the reduced problem as flagged at that moment."
)
BUDGET = {"quick": 16 * 1500, "thorough": 16 * 8000}
TOLERANCES = {
    "fixed vertices": "translation unchanged bitwise, SE2 angle within 4 ulp(pi) (re-wrap), quaternion bitwise",
    "backward residual": "|H_ff d + b_f| <= 1e-9*(|H_ff| |d| + |b_f|) + 1e-12*(1+S)*|H_ff|",
    "step": "|d - (-H_ff^-1 b_f)| <= 1e-9*cond(H_ff)*(1+|d|)",
    "chi2": "relative 1e-9 (+1e-12*|Omega|*(1+S)^2 floor)",
}
ASSUMPTIONS = ["reference model + AD trusted after self-test", "cases whose reference step has a rotational norm >= 0.9 or cond(H_ff) > 1e10 are discarded and counted"]


def _dead_reckoned(g):
    """A dead-reckoned start: every vertex sits exactly where the odometry chain puts it (whole / dyadic numbers, no rotation), so
    every chain edge has an error of exactly 0.0 and the gradient blocks of the vertices the loop closures do not touch are exactly
    zero - while the Gauss-Newton step, which spreads the loop-closure error along the chain, is not."""
    rnd = g.rnd
    base = g.choice(["r2", "r3", "se2"])
    d = R.PDIM[base]
    n = g.integer(3, 8)
    tail = [0.0] if base == "se2" else []
    truth = [[float(rnd.randint(-16, 16)) / 4.0 for _ in range(d)] + tail for _ in range(n)]
    c = R.CDIM[base]

    def info():
        return np.diag([rnd.choice([0.5, 1.0, 2.0, 4.0]) for _ in range(c)]).tolist()

    edges = []
    for i in range(n - 1):
        edges.append({"t": "odo", "fl": None, "ids": [i, i + 1], "z": {"k": base, "v": [b - a for a, b in zip(truth[i][:d], truth[i + 1][:d])] + tail}, "off": None, "info": info(), "layout": "C", "np_ids": False})
    for _ in range(g.integer(1, 2)):
        i, j = sorted(rnd.sample(range(n), 2))
        if j - i < 2:
            i, j = 0, n - 1
        noise = [rnd.choice([-0.5, -0.125, 0.125, 0.25, 1.0]) for _ in range(d)]
        edges.append({"t": "odo", "fl": None, "ids": [i, j], "z": {"k": base, "v": [b - a + e for a, b, e in zip(truth[i][:d], truth[j][:d], noise)] + tail}, "off": None, "info": info(), "layout": "C", "np_ids": False})
    fix_first = g.boolean()
    fixed = [False] * n
    if not fix_first:
        fixed[rnd.randrange(n)] = True
    verts = [{"id": i, "p": {"k": base, "v": list(truth[i])}, "fixed": fixed[i], "truth": list(truth[i]), "role": "pose"} for i in range(n)]
    return {"base": base, "verts": verts, "edges": edges, "fix_first": fix_first, "n_steps": 1, "alias": [], "restart": False, "meta": {"npose": n, "nlm": 0, "nloops": len(edges) - (n - 1), "noise": [0.0, 0.0], "pert": [0.0, 0.0], "cond": 1.0, "world": 1.0, "feats": ["dead-reckoned-start"], "tree": "chain", "init_displacement": 0.0}}


@S.composite
def strategy_(g):
    if g.rnd.random() < 0.004:
        return HG.gen(g)
    if g.choice([False] * 15 + [True]):
        return _dead_reckoned(g)
    case = GG.gen(g, n_pose=(2, 8), n_lm=(0, 3), n_loops=(0, 3), conds=(1.0, 1e2, 1e3), noise=(0.05, 0.05), pert=(0.3, 0.3))
    case["n_steps"] = g.choice([1, 1, 2, 3])
    # the fixed set edited on the live graph between two iterations (round 9, C03-l): a free vertex becomes fixed / a fixed one free
    case["refix"] = g.choice([None, None, None, "fix", "fix", "unfix"])
    case["refix_pick"] = g.rnd.random()
    if case["refix"]:
        case["n_steps"] = max(2, case["n_steps"])
    # multi-start: the same edge objects were already used in an earlier Graph with OTHER Vertex objects (same ids) that moved since
    case["restart"] = g.choice([False, False, False, True])
    case["alias"] = []
    ff0 = case["fix_first"]
    free0 = [i for i, v in enumerate(case["verts"]) if not (v["fixed"] or (ff0 and i == 0))]
    if len(free0) >= 2 and g.choice([False, False, False, True]):
        # several free vertices initialised from ONE pose object (same kind): each must still receive its own update
        j = g.rnd.choice(free0)
        same = [i for i in free0 if i != j and case["verts"][i]["p"]["k"] == case["verts"][j]["p"]["k"]]
        for i in g.rnd.sample(same, min(len(same), g.rnd.randint(1, 2))):
            case["verts"][i]["p"] = {"k": case["verts"][j]["p"]["k"], "v": list(case["verts"][j]["p"]["v"])}
            case["alias"].append([i, j])
    # free vertices may start far away in translation (exact Gauss-Newton steps of 1e2..1e5 units)
    P = g.choice([0.0, 0.0, 0.0, 1e2, 1e5])
    case["meta"]["init_displacement"] = P
    if P:
        ff = case["fix_first"]
        for i, v in enumerate(case["verts"]):
            if v["fixed"] or (ff and i == 0):
                continue
            n = R.PDIM[v["p"]["k"]]
            v["p"]["v"][:n] = [t + g.rnd.uniform(-P, P) for t in v["p"]["v"][:n]]
    return case


def strategy(tier):
    return strategy_()


def summarise(case):
    return case if case.get("shape") == "huge" else GG.summarise(case)


def check(case, ctx):
    if case.get("shape") == "huge":
        return HG.check_one_step(case, ctx, "not-the-gauss-newton-step:large-graph")
    GG.classify(case, ctx)
    m = case["meta"]
    feats = set(m["feats"])
    ts = set(e["t"] for e in case["edges"])
    kinds = set(v["p"]["k"] for v in case["verts"])
    nfixed_flag = sum(1 for v in case["verts"] if v["fixed"])
    nontriv = bool({"parallel", "reversed"} & feats) or len(set(R.CDIM[k] for k in kinds)) > 1 or nfixed_flag >= 2 or bool(ts & {"prior", "mid", "eqstep", "relpose"})
    ctx.nontrivial(nontriv)
    S_ = GG.S_of(case)

    g = GG.build(case)
    if case.get("restart"):
        # one constraint list, several initial guesses: an earlier graph over the same edge objects took a step (its vertices moved);
        # the graph under test is built from those edge objects and fresh Vertex objects holding the case's poses
        ctx.event("edges-reused-from-an-earlier-graph")
        GC.optimize_quiet(g, tol=0.0, max_iter=1, fix_first_pose=case["fix_first"], verbose=False)
        fresh = GG.build(case)
        g = gs.Graph(g._edges, fresh._vertices)
    for i, j in case.get("alias", []):
        g._vertices[i].pose = g._vertices[j].pose
    if case.get("alias"):
        ctx.event("free-vertices-share-one-pose-object")
    # consecutive iterations on the same live graph: each one must be the Gauss-Newton step of the state it starts from
    # (anything remembered from an earlier evaluation - cached blocks, buffers - shows up from the second one on)
    ff = case["fix_first"]
    fixed = GC.expected_fixed(case, ff)
    for it in range(case.get("n_steps", 1)):
        if it == 1 and case.get("refix"):
            # between two iterations on the same Graph object the user marks another vertex fixed (or releases one): the next
            # iteration must be the Gauss-Newton step of the NEW reduced problem (nothing kept from the earlier linearisation)
            want = case["refix"] == "fix"
            elig = [i for i, f in enumerate(fixed) if bool(f) != want and not (ff and i == 0)]
            if want and len(elig) < 2:
                elig = []
            if elig:
                j = elig[min(len(elig) - 1, int(case.get("refix_pick", 0.0) * len(elig)))]
                g._vertices[j].fixed = want
                fixed = list(fixed)
                fixed[j] = want
                ctx.event("fixed-set-edited-between-iterations:%s" % case["refix"])
        if GC.gn_step_oracle(ctx, case, g, ff, S_, fixed=fixed):
            return
        if not GC.all_finite(g):
            return
    ctx.event("steps:%d" % case.get("n_steps", 1))
