"""C03 - one optimizer iteration is exactly the Gauss-Newton step."""
import numpy as np

from .. import graphcheck as GC, graphgen as GG, gs, refgraph as RG, refmodel as R, strategies as S

ID = "C03"
RULE = (
    "Graph cases of 2..11 vertices over every family (R2, R3, SE2, SE3, each optionally with landmarks => mixed dimensionality), spanning "
    "tree/chain + loop closures + parallel edges + edges listing the later vertex first + custom unary (prior) / binary (relpose) / ternary "
    "(midpoint, equal-step) edges with analytic Jacobians, permuted vertex list, arbitrary ids, 0..3 extra fixed vertices, fix_first_pose in "
    "{T,F}; every component holds a fixed pose. Oracle: optimize(tol=0,max_iter=1), recover the applied increment per vertex with the reference "
    "model and compare with the dense reference normal equations (AD Jacobians, explicit loops, numpy.linalg.solve). "
    "Non-trivial = parallel edge, reversed edge, mixed dimensions, >=2 fixed vertices or an n-ary custom edge; distinct = hash of the case."
)
BUDGET = {"quick": 16 * 250, "thorough": 16 * 8000}
TOLERANCES = {
    "fixed vertices": "translation unchanged bitwise, SE2 angle within 4 ulp(pi) (re-wrap), quaternion bitwise",
    "backward residual": "|H_ff d + b_f| <= 1e-9*(|H_ff| |d| + |b_f|) + 1e-12*(1+S)*|H_ff|",
    "step": "|d - (-H_ff^-1 b_f)| <= 1e-9*cond(H_ff)*(1+|d|)",
    "chi2": "relative 1e-9 (+1e-12*|Omega|*(1+S)^2 floor)",
}
ASSUMPTIONS = ["reference model + AD trusted after self-test", "cases whose reference step has a rotational norm >= 0.9 or cond(H_ff) > 1e10 are discarded and counted"]


@S.composite
def strategy_(g):
    return GG.gen(g, n_pose=(2, 8), n_lm=(0, 3), n_loops=(0, 3), conds=(1.0, 1e2, 1e3), noise=(0.05, 0.05), pert=(0.3, 0.3))


def strategy(tier):
    return strategy_()


summarise = GG.summarise


def check(case, ctx):
    GG.classify(case, ctx)
    m = case["meta"]
    feats = set(m["feats"])
    ts = set(e["t"] for e in case["edges"])
    kinds = set(v["p"]["k"] for v in case["verts"])
    nfixed_flag = sum(1 for v in case["verts"] if v["fixed"])
    nontriv = bool({"parallel", "reversed"} & feats) or len(set(R.CDIM[k] for k in kinds)) > 1 or nfixed_flag >= 2 or bool(ts & {"prior", "mid", "eqstep", "relpose"})
    ctx.nontrivial(nontriv)
    S_ = GG.S_of(case)

    g = GG.build(case)
    ff = case["fix_first"]
    fixed = GC.expected_fixed(case, ff)
    before = RG.poses_snapshot(g)
    sys0 = RG.system(g)
    free = RG.free_indices(g, fixed)
    H, b = sys0["H"], sys0["b"]
    chi_before = sys0["chi2"]

    if len(free):
        Hff, bf = H[np.ix_(free, free)], b[free]
        cond = float(np.linalg.cond(Hff))
        if not np.isfinite(cond) or cond > 1e10:
            ctx.event("discarded:ill-conditioned")
            return
        dpred = np.linalg.solve(Hff, -bf)
        # rotational norm of the predicted SE3 steps
        sl = sys0["slices"]
        full = np.zeros(sys0["N"])
        full[free] = dpred
        for v, s in zip(case["verts"], sl):
            if v["p"]["k"] == "se3" and float(np.linalg.norm(full[s][3:])) >= 0.9:
                ctx.event("discarded:rot-step>=0.9")
                return

    ret, _ = GC.optimize_quiet(g, tol=0.0, max_iter=1, fix_first_pose=ff, verbose=False)
    if not GC.all_finite(g):
        return ctx.fail("nonfinite-poses", "poses are not finite after one iteration of a well-posed graph")
    d = GC.steps(g, before)

    # (1) fixed vertices have zero step
    sl = sys0["slices"]
    for i, (v, s) in enumerate(zip(g._vertices, sl)):
        if fixed[i]:
            k = gs.kind_of(v.pose)
            dt, dr = GC.pose_diff(k, before[i], gs.stored(v.pose))
            if dt != 0.0 or dr > 4 * 4.5e-16:
                return ctx.fail("fixed-vertex-moved", "fixed vertex #%d (id %r) moved by (%.3e, %.3e)" % (i, v.id, dt, dr))

    if len(free):
        df = d[free]
        nH = float(np.linalg.norm(Hff, 2))
        res = float(np.linalg.norm(Hff @ df + bf))
        tol_res = 1e-9 * (nH * float(np.linalg.norm(df)) + float(np.linalg.norm(bf))) + 1e-12 * (1 + S_) * nH
        ctx.deviation("backward residual", res, tol_res)
        if not (res <= tol_res):
            return ctx.fail("not-the-gauss-newton-step", "|H_ff d + b_f| = %.3e > %.3e (|d|=%.3e, cond=%.2e)" % (res, tol_res, float(np.linalg.norm(df)), cond))
        err = float(np.abs(df - dpred).max())
        tol_d = 1e-9 * cond * (1 + float(np.abs(dpred).max()))
        ctx.deviation("step vs -H^-1 b", err, tol_d)
        if not (err <= tol_d):
            return ctx.fail("not-the-gauss-newton-step", "max|d - d_ref| = %.3e > %.3e" % (err, tol_d))

    # (4) reported chi2 values
    maxinfo = max(float(np.abs(np.array(e["info"])).max()) for e in case["edges"]) if case["edges"] else 1.0
    floor = 1e-12 * maxinfo * (1 + S_) ** 2
    if ret.initial_chi2 is None or not GC.rel_close(float(ret.initial_chi2), chi_before, 1e-9, floor):
        return ctx.fail("initial-chi2", "initial_chi2=%r reference=%r" % (ret.initial_chi2, chi_before))
    chi_after = RG.chi2(g)
    if ret.final_chi2 is None or not GC.rel_close(float(ret.final_chi2), chi_after, 1e-9, floor):
        return ctx.fail("final-chi2", "final_chi2=%r reference chi2 of returned state=%r" % (ret.final_chi2, chi_after))
    if ret.num_iterations != 1:
        return ctx.fail("num-iterations", "num_iterations=%r after max_iter=1" % (ret.num_iterations,))
    # flags
    flags = [bool(v.fixed) for v in g._vertices]
    if flags != fixed:
        return ctx.fail("fixed-flags", "fixed flags after optimize %r, expected %r" % (flags, fixed))
