"""C16 - custom edges with numerical Jacobians optimize like analytic ones."""
import copy

import numpy as np

from .. import customedges as CE, graphcheck as GC, graphgen as GG, gs, refgraph as RG, refmodel as R, strategies as S
from graphslam.edge.base_edge import BaseEdge

ID = "C16"
RULE = (
    "Programs: a family of custom edge classes that define only calc_error (1-D arrays, as the repository's example): distance, range (in the "
    "frame of a pose), relative pose, unary prior, ternary midpoint, ternary equal-step, over every pose type that makes sense, each with a "
    "reference twin and an 'exact' twin class whose calc_jacobians is the AD Jacobian. Case shape 'edge': one such edge with operands |t| <= 100 "
    "and point distances >= 0.1 - BaseEdge.calc_jacobians vs the AD truth within the forward-difference bound. Case shape 'graph': a C05-style "
    "graph (3..12 poses, landmarks, loops) whose odometry edges are replaced by numeric relative-pose edges plus extra numeric edges, optimized "
    "with tol=1e-10, against the same graph built from the exact twins. Non-trivial = an edge over >= 2 vertices of different pose types, or 3 "
    "vertices, or a graph with a loop."
)
BUDGET = {"quick": 16 * 600, "thorough": 16 * 10000}
TOLERANCES = {
    "numeric Jacobian": "2*(h/2)*|d2e/d delta_k^2| (estimated from AD Jacobians at +-1e-4) + 128*eps*(1+S)*(1+|J|)/h + 1e-9, h = 1e-6",
    "optimum": "1e-3*(1+S) translation, 1e-3 rotation",
    "convergence speed": "if the exact twin converges in n <= 20 iterations the numeric graph is within 1e-6 of its final chi2 after <= 2n+5 iterations",
    "chi2": "relative 1e-6 + 1e-9*|Omega|*(1+S)^2",
    "stationarity": "Newton decrement (exact reference system) <= 1e-10*chi2 + 1e-7*(1+chi2_initial)",
}
ASSUMPTIONS = ["operands with |t| <= 100 and distances >= 0.1: the forward difference and the norm are not claimed beyond that", "graphs inside the C05 neighbourhood"]

H = 1e-6
EPS = 2.0**-52
TAGS = ["dist", "range", "relpose", "prior", "mid", "eqstep"]


def _kinds_for(g, tag):
    base = g.choice(["r2", "r3", "se2", "se3"])
    pk = R.POINT_OF[base]
    if tag == "prior":
        return [g.choice([base, pk])]
    if tag == "relpose":
        return [base, base]
    if tag == "range":
        return [base, g.choice([base, pk])]
    if tag == "dist":
        return [g.choice([base, pk]), g.choice([base, pk])]
    return [g.choice([base, pk]) for _ in range(3)]


@S.composite
def strategy_(g):
    shape = g.choice(["edge", "edge", "edge", "graph"])
    rnd = g.rnd
    if shape == "edge":
        tag = g.choice(TAGS)
        kinds = _kinds_for(g, tag)
        s = g.choice([1.0, 1.0, 10.0, 100.0, 1e7])
        for _ in range(50):
            ops = [g.pose(k, s=s) for k in kinds]
            pos = [o["v"][: R.PDIM[o["k"]]] for o in ops]
            ok = True
            if tag in ("dist", "range"):
                ok = float(np.linalg.norm(np.array(pos[0]) - np.array(pos[1]))) >= 0.1
            if ok:
                break
        else:
            ops = [g.pose(k, s=1.0) for k in kinds]
            ops[0]["v"][0] += 3.0
        n = {"dist": 1, "range": 1, "relpose": R.CDIM[kinds[0]], "prior": R.CDIM[kinds[0]], "mid": R.PDIM[kinds[0]], "eqstep": R.PDIM[kinds[0]]}[tag]
        if tag in ("relpose", "prior"):
            z = g.pose(kinds[0], s=s)
        elif tag in ("dist", "range"):
            z = [rnd.uniform(0.0, 2 * s)]
        else:
            z = g.vec(n, s=s)
        if g.choice([False, False, True]):
            # a degenerate but legitimate start: every vertex at the identity ("no initial guess"), or - for the distance
            # type edges - points separated along one axis only; many derivative entries are exactly zero there
            if tag in ("dist", "range"):
                ops = [{"k": k, "v": list(R.identity(k))} for k in kinds]
                ops[1]["v"][0] = g.choice([1.0, 5.0, 100.0])
            else:
                ops = [{"k": k, "v": list(R.identity(k))} for k in kinds]
        case = {"shape": "edge", "tag": tag, "ops": ops, "z": z, "info": g.sym_matrix(n, max_cond=1e2, kind=g.choice(["spd", "ident"]))}
        # whole-number weights handed over as an integer-dtype matrix (np.eye(n, dtype=int), np.diag([2, 3]))
        if g.choice([False, False, False, True]):
            case["info"] = np.diag([float(rnd.randint(1, 9)) for _ in range(n)]).tolist()
            case["info_int"] = True
        # history: a second state for the vertices of the same edge object (after a chi2 query)
        case["ops_b"] = [g.pose(k, s=s) for k in kinds]
        if tag in ("dist", "range"):
            pb = [o["v"][: R.PDIM[o["k"]]] for o in case["ops_b"]]
            if float(np.linalg.norm(np.array(pb[0]) - np.array(pb[1]))) < 0.1:
                case["ops_b"][0]["v"][0] += 3.0
        # history: the measurement of the same edge object is replaced (poses untouched) after its Jacobians were requested once
        if tag in ("relpose", "prior"):
            case["z_b"] = g.pose(kinds[0], s=s)
        elif tag in ("dist", "range"):
            case["z_b"] = [rnd.uniform(0.0, 2 * s)]
        else:
            case["z_b"] = g.vec(n, s=s)
        # all vertices of one kind may start from ONE pose object (e.g. every unknown initialised from the same origin object)
        case["shared_pose"] = bool(tag in ("relpose", "mid", "eqstep") and len(set(kinds)) == 1 and g.choice([False, False, True]))
        return case
    cond = g.choice([1.0, 1e2])
    nz = 0.05 / cond
    case = GG.gen(g, bases=("se2", "se3", "r2", "r3"), n_pose=(3, 12), n_lm=(0, 3), n_loops=(0, 4), conds=(cond,), noise=(nz, nz), pert=(0.3, 0.3), features=("parallel", "reversed", "permute", "ids", "multifixed", "custom", "quat-signs", "pure-translation-steps"), custom_flavour="num")
    for e in case["edges"]:
        if e["t"] == "odo":
            e["t"], e["fl"] = "relpose", "num"
    # extra distance / range edges between vertices whose true distance is >= 0.1
    verts = case["verts"]
    for _ in range(rnd.randint(0, 3)):
        i, j = rnd.sample(range(len(verts)), 2)
        pd = R.PDIM[case["base"]]
        d = float(np.linalg.norm(np.array(verts[i]["truth"][:pd]) - np.array(verts[j]["truth"][:pd])))
        if d < 0.5:
            continue
        tag = rnd.choice(["dist", "range"])
        if tag == "range" and verts[i]["role"] != "pose":
            tag = "dist"
        case["edges"].append({"t": tag, "fl": "num", "ids": [verts[i]["id"], verts[j]["id"]], "z": [d + rnd.uniform(-nz, nz)], "off": None, "info": [[rnd.uniform(0.5, 5.0)]]})
    case["shape"] = "graph"
    return case


def strategy(tier):
    return strategy_()


def summarise(case):
    if case["shape"] == "graph":
        s = GG.summarise(case)
        s["shape"] = "graph"
        return s
    return case


def _build_edge(case, flavour):
    kinds = [o["k"] for o in case["ops"]]
    if case.get("shared_pose"):
        shared = gs.mk_pose(case["ops"][0])
        verts = [gs.Vertex(i, shared) for i, o in enumerate(case["ops"])]
    else:
        verts = [gs.Vertex(i, gs.mk_pose(o)) for i, o in enumerate(case["ops"])]
    z = case["z"]
    est = gs.mk_pose(z) if isinstance(z, dict) else (np.array(z, dtype=float) if case["tag"] in ("mid", "eqstep") else float(z[0]))
    info = np.array(case["info"], dtype=float)
    if case.get("info_int"):
        info = info.astype(np.int64)
    e = CE.CLASSES[(case["tag"], flavour)](list(range(len(verts))), info, est, verts)
    return e, verts, kinds


def _ad_jacobians_at(tag, kinds, ops, z, vi, delta):
    ops2 = [list(o) for o in ops]
    ops2[vi] = [R.val(x) for x in R.boxplus(kinds[vi], ops[vi], list(delta))]
    return CE.ref_error_and_jacobians(tag, kinds, ops2, z)[1]


def _check_edge(case, ctx):
    tag = case["tag"]
    e, verts, kinds = _build_edge(case, "num")
    ctx.event("edge:" + tag)
    if case.get("info_int"):
        ctx.event("integer-dtype-information")
    if case.get("shared_pose"):
        ctx.event("vertices-share-one-pose-object")
    if _check_edge_state(case, ctx, e, verts, kinds, ""):
        return
    if "z_b" in case:
        # history on the same edge object: the measurement is replaced while every pose stays bit-identical; the numeric
        # Jacobians must be those of the edge as it is now
        zb = case["z_b"]
        e.estimate = gs.mk_pose(zb) if isinstance(zb, dict) else (np.array(zb, dtype=float) if case["tag"] in ("mid", "eqstep") else float(zb[0]))
        ctx.event("measurement-replaced-after-first-jacobian-request")
        if _check_edge_state(case, ctx, e, verts, kinds, " (after replacing the measurement, poses unchanged)"):
            return
        z0 = case["z"]
        e.estimate = gs.mk_pose(z0) if isinstance(z0, dict) else (np.array(z0, dtype=float) if case["tag"] in ("mid", "eqstep") else float(z0[0]))
    if "ops_b" in case and not case.get("shared_pose"):
        # history on the same edge object: chi2 query, then the vertices move, then the numeric Jacobians are requested
        e.calc_chi2()
        for v, o in zip(verts, case["ops_b"]):
            v.pose = gs.mk_pose(o)
        _check_edge_state(case, ctx, e, verts, kinds, " (after calc_chi2 and moving the vertices)")


def _check_edge_state(case, ctx, e, verts, kinds, label):
    """Numeric Jacobians of `e` at the current vertex poses vs the AD truth.  Returns True on failure / skip."""
    tag = case["tag"]
    if not label:
        ctx.event("kinds:" + "+".join(kinds))
        ctx.nontrivial(len(set(kinds)) >= 2 or len(kinds) == 3)
    ops = [gs.stored(v.pose) for v in verts]
    z = CE.estimate_to_list(e)
    # magnitude of everything the error is computed from: the vertex poses and the edge's CURRENT measurement
    S_ = max([gs.max_trans((k, o)) for k, o in zip(kinds, ops)] + [max(abs(float(x)) for x in z)])
    e_ref, J_ref = CE.ref_error_and_jacobians(tag, kinds, ops, z)
    e_code = np.atleast_1d(np.array(e.calc_error(), dtype=float))
    tol_e = 1e-10 * (1 + S_)
    ecmp = e_ref.copy()
    if tag in ("relpose", "prior") and kinds[0] == "se2":
        ecmp[2] = e_code[2] + R.wrap(ecmp[2] - e_code[2])
    if ctx.check_close("custom-edge-twin", "error twin", e_code, ecmp, tol_e, tag):
        raise RuntimeError("harness: custom edge and its reference twin disagree")
    # the property is about *smooth* error functions: skip the measure-zero neighbourhoods where the SE(2) angular
    # error wraps or the canonical SE(3) error sign flips (a forward difference across the jump is meaningless)
    if tag in ("relpose", "prior") and kinds[0] == "se2" and abs(abs(e_code[2]) - np.pi) < 1e-3:
        ctx.event("skipped:error-at-se2-wrap")
        return True
    if tag == "relpose" and kinds[0] == "se3" and 1.0 - float(np.dot(e_code[3:], e_code[3:])) < 1e-5:
        ctx.event("skipped:error-at-180deg")
        return True
    before = [gs.bits(v.pose) for v in verts]
    Js = BaseEdge.calc_jacobians(e)
    if [gs.bits(v.pose) for v in verts] != before:
        return ctx.fail("numeric-jacobian-left-pose-changed", "BaseEdge.calc_jacobians changed a vertex pose")
    if len(Js) != len(verts):
        return ctx.fail("numeric-jacobian-shape", "%d Jacobians for %d vertices" % (len(Js), len(verts)))
    for vi, (J, Jr, k) in enumerate(zip(Js, J_ref, kinds)):
        J = np.array(J, dtype=float)
        c = R.CDIM[k]
        if J.shape != (len(e_code), c):
            return ctx.fail("numeric-jacobian-shape", "Jacobian %d has shape %s expected %s" % (vi, J.shape, (len(e_code), c)))
        tol = np.zeros_like(Jr)
        hh = 1e-4
        for d in range(c):
            dp = np.zeros(c)
            dp[d] = hh
            Jp = _ad_jacobians_at(tag, kinds, ops, z, vi, dp)[vi]
            Jm = _ad_jacobians_at(tag, kinds, ops, z, vi, -dp)[vi]
            d2 = np.abs(Jp[:, d] - Jm[:, d]) / (2 * hh)
            tol[:, d] = 2 * (H / 2) * d2 + 128 * EPS * (1 + S_) * (1 + np.abs(Jr[:, d])) / H + 1e-9
        if tag in ("relpose", "prior") and kinds[0] == "se2":
            pass
        if ctx.check_close("numeric-jacobian-inaccurate", "numeric Jacobian[%d] of %s%s" % (vi, tag, label), J, Jr, tol, "+".join(kinds)):
            return True
    return False

def _with_flavour(case, fl):
    c = copy.deepcopy(case)
    for e in c["edges"]:
        if e.get("fl"):
            e["fl"] = fl
    return c


def _check_graph(case, ctx):
    GG.classify(case, ctx)
    ctx.event("graph")
    m = case["meta"]
    ctx.nontrivial(m["nloops"] > 0)
    S_ = GG.S_of(case)
    ff = case["fix_first"]
    g_num = GG.build(_with_flavour(case, "num"))
    g_ex = GG.build(_with_flavour(case, "exact"))
    chi0 = RG.chi2(g_num)
    r_num, _ = GC.optimize_quiet(g_num, tol=1e-10, max_iter=50, fix_first_pose=ff, verbose=False)
    r_ex, _ = GC.optimize_quiet(g_ex, tol=1e-10, max_iter=50, fix_first_pose=ff, verbose=False)
    if not GC.all_finite(g_ex):
        ctx.event("discarded:exact-twin-diverged")
        return
    if not GC.all_finite(g_num):
        return ctx.fail("numeric-graph-diverged", "graph with numeric Jacobians produced non-finite poses while its exact twin converged")
    if not r_ex.converged:
        # un-damped Gauss-Newton did not settle even with exact Jacobians (1-D range / distance constraints can make it
        # cycle): the two runs are then two samples of a non-convergent iteration and need not agree in their last iterate;
        # the property compares optima, it does not promise convergence there
        ctx.event("exact-twin-did-not-converge:comparison-skipped")
        return
    worst = 0.0
    for i, (a, b) in enumerate(zip(g_num._vertices, g_ex._vertices)):
        k = gs.kind_of(a.pose)
        dt, dr = GC.pose_diff(k, gs.stored(a.pose), gs.stored(b.pose))
        worst = max(worst, dt / (1e-3 * (1 + S_)), dr / 1e-3)
        if not (dt <= 1e-3 * (1 + S_) and dr <= 1e-3):
            return ctx.fail("numeric-optimum-differs", "vertex #%d: numeric-Jacobian optimum differs from exact-Jacobian optimum by (%.3e, %.3e)" % (i, dt, dr))
    ctx.deviation("optimum numeric vs exact", worst, 1.0)
    maxinfo = max(float(np.abs(np.array(e["info"])).max()) for e in case["edges"])
    floor = 1e-9 * maxinfo * (1 + S_) ** 2
    if r_ex.converged and r_ex.num_iterations <= 20:
        # comparable speed, judged on the chi2 trajectory (the `converged` flag at tol=1e-10 can be defeated by the
        # 1e-6-level noise of forward differences, which the property allows): the numeric graph must be within 1e-6 of
        # the exact graph's final chi2 after at most 2n+5 iterations
        target = float(r_ex.final_chi2) * (1 + 1e-6) + floor
        traj = [float(r_num.initial_chi2)] + [float(it.chi2) for it in r_num.iteration_results if it.chi2 is not None]
        first = next((j for j, c in enumerate(traj) if c <= target), None)
        limit = 2 * r_ex.num_iterations + 5
        if first is not None:
            ctx.deviation("iterations numeric vs exact", float(first), float(limit))
        if first is None or first > limit:
            return ctx.fail("numeric-graph-converges-slower", "exact-Jacobian graph converged in %d iterations; the numeric-Jacobian graph reaches its chi2 after %r iterations (limit %d)" % (r_ex.num_iterations, first, limit))
    if not GC.rel_close(float(r_num.final_chi2), float(r_ex.final_chi2), 1e-6, floor):
        return ctx.fail("numeric-chi2-differs", "final chi2 %r (numeric) vs %r (exact)" % (r_num.final_chi2, r_ex.final_chi2))
    # stationarity of the numeric optimum w.r.t. the exact reference system
    fixed = GC.expected_fixed(case, ff)
    sysf = RG.system(g_num)
    free = RG.free_indices(g_num, fixed)
    if not r_ex.converged:
        # un-damped Gauss-Newton did not converge even with exact Jacobians (1-D range/distance constraints can make it
        # cycle); the property compares the numeric graph with the exact one, it does not promise convergence there
        ctx.event("exact-twin-did-not-converge:stationarity-skipped")
    elif len(free):
        Hff, bf = sysf["H"][np.ix_(free, free)], sysf["b"][free]
        if np.isfinite(np.linalg.cond(Hff)) and np.linalg.cond(Hff) < 1e10:
            lam2 = float(bf @ np.linalg.solve(Hff, bf))
            bound = 1e-10 * sysf["chi2"] + 1e-7 * (1 + chi0)
            ctx.deviation("newton decrement (numeric graph)", lam2, bound)
            if not (lam2 <= bound):
                return ctx.fail("numeric-optimum-not-stationary", "Newton decrement %.3e > %.3e at the numeric-Jacobian optimum" % (lam2, bound))


def check(case, ctx):
    if case["shape"] == "edge":
        return _check_edge(case, ctx)
    return _check_graph(case, ctx)
