"""C07 - chi^2 and the optimization trajectory are independent of the world frame."""
import copy
import math

import numpy as np

from .. import graphcheck as GC, graphgen as GG, gs, refgraph as RG, refmodel as R, strategies as S
from .c02 import _chi2_tol

ID = "C07"
RULE = (
    "Metamorphic: a generated graph (every family, odometry + landmark edges with rotated offsets, loops, parallel/reversed edges, any ids/order, "
    "SPD information with cross terms) inside the convergence neighbourhood and a rigid transform T (any rotation incl. ~180 degrees, translation "
    "magnitude 1..1e6; a translation for R^n graphs); g' = {T (+) v} is built with the reference model. (1) every edge error and chi2 are equal; "
    "(2) after optimize(tol=0,max_iter=k), k in 1..5, T (+) v_k = v'_k for every vertex; (3) the same after a default optimize() that stops by its own convergence test (skipped when a stopping comparison is within rounding of its threshold). Non-trivial = T rotates by > 0.1 rad (SE families) and "
    "translates by > 1, and the graph has a loop closure or a landmark."
)
BUDGET = {"quick": 16 * 800, "thorough": 16 * 6000}
TOLERANCES = {
    "errors": "1e-10*(1+S+S_T) translation rows, 1e-10 rotation rows",
    "chi2": "sum over edges of (1e-9*A + error-propagation bound), see C02",
    "poses after k iterations": "1e-10*(1+S+S_T)*max(1, cond(H_ff)*1e-4) translation, 1e-8*max(1, cond*1e-4)*(1+1e-4*S_T) rotation (mod 2pi / up to sign)",
}
ASSUMPTIONS = ["trajectory comparison restricted to the numerically stable regime (convergence neighbourhood of C05)"]


@S.composite
def strategy_(g):
    case = GG.gen(g, n_pose=(2, 8), n_lm=(0, 3), n_loops=(0, 3), conds=(1.0, 1e2), noise=(0.05, 0.05), pert=(0.3, 0.3), features=("parallel", "reversed", "permute", "ids", "multifixed", "rn_lm_offsets", "quat-signs", "pure-translation-steps", "near-identity-orientations", "info-scale", "flag-types"))
    base = case["base"]
    sT = g.choice([1.0, 10.0, 1e3, 1e6])
    T = g.pose(base, s=sT)
    case["T"] = T
    case["k"] = g.integer(1, 5)
    # how the transformed graph comes about: built fresh from transformed values, or the SAME graph object that has
    # already been evaluated (chi2, Jacobians, one optimize call) gets every vertex re-posed to T (+) v
    case["repose_in_place"] = g.choice([False, True])
    return case


def strategy(tier):
    return strategy_()


def summarise(case):
    s = GG.summarise(case)
    s["T"] = case["T"]
    s["k"] = case["k"]
    return s


def transform_case(case, T):
    base = case["base"]
    c2 = copy.deepcopy(case)
    Tv = [float(x) for x in gs.stored(gs.mk_pose(T))]
    for v in c2["verts"]:
        k = v["p"]["k"]
        if k == base:
            p = R.mul(base, Tv, v["p"]["v"])
        else:
            p = R.act(base, Tv, v["p"]["v"])
        v["p"]["v"] = GG._canon(k, p)
    return c2, Tv


def _tol_err(tag, S_):
    t = tag.split(":")
    ek = tag
    n_t = {"odo:r2": 2, "odo:r3": 3, "odo:se2": 2, "odo:se3": 3, "lm:se2": 2, "lm:se3": 3, "lm:r2": 2, "lm:r3": 3}[ek]
    n = {"odo:r2": 2, "odo:r3": 3, "odo:se2": 3, "odo:se3": 6, "lm:se2": 2, "lm:se3": 3, "lm:r2": 2, "lm:r3": 3}[ek]
    tol = np.full(n, 1e-10)
    tol[:n_t] = 1e-10 * (1 + S_)
    return tol


def check(case, ctx):
    GG.classify(case, ctx)
    base = case["base"]
    T = case["T"]
    k = case["k"]
    m = case["meta"]
    ST = gs.max_trans(T)
    rot = 0.0
    if base == "se2":
        rot = abs(R.wrap(T["v"][2]))
    elif base == "se3":
        rot = 2 * math.acos(min(1.0, abs(T["v"][6])))
    ctx.event("S_T:%g" % (1e6 if ST > 1e3 else 1e3 if ST > 10 else 10 if ST > 1 else 1))
    if rot > 3.0:
        ctx.event("T-rotation~180deg")
    ctx.nontrivial((rot > 0.1 or base in ("r2", "r3")) and ST > 1 and (m["nloops"] > 0 or m["nlm"] > 0))
    S_ = GG.S_of(case)

    case2, Tv = transform_case(case, T)
    g1 = GG.build(case)
    if case.get("repose_in_place"):
        ctx.event("transformed-by-reposing-a-live-graph")
        g2 = GG.build(case)
        g2.calc_chi2()
        for e in g2._edges:
            e.calc_jacobians()
            e.calc_chi2_gradient_hessian()
        for v, vd in zip(g2._vertices, case2["verts"]):
            v.pose = gs.mk_pose(vd["p"])
    else:
        g2 = GG.build(case2)

    # (1) errors and chi2
    tol_sum = 0.0
    for e1, e2 in zip(g1._edges, g2._edges):
        tag = RG.edge_descr(e1)[0]
        a = np.array(e1.calc_error(), dtype=float)
        b = np.array(e2.calc_error(), dtype=float)
        if tag == "odo:se2":
            b[2] = a[2] + R.wrap(b[2] - a[2])
        te = _tol_err(tag, S_ + ST)
        if ctx.check_close("edge-error-frame-dependent", "edge error under T", b, a, te, tag):
            return
        tol_sum += _chi2_tol(a, np.array(e1.information), te)
    c1, c2 = float(g1.calc_chi2()), float(g2.calc_chi2())
    ctx.deviation("chi2 under T", abs(c1 - c2), tol_sum)
    if not (abs(c1 - c2) <= tol_sum):
        return ctx.fail("chi2-frame-dependent", "chi2 %r vs %r after transforming by T (tol %.3e)" % (c1, c2, tol_sum))

    # (2) trajectory
    ff = case["fix_first"]
    fixed = GC.expected_fixed(case, ff)
    sys0 = RG.system(g1)
    free = RG.free_indices(g1, fixed)
    cond = float(np.linalg.cond(sys0["H"][np.ix_(free, free)])) if len(free) else 1.0
    if not np.isfinite(cond) or cond > 1e8:
        ctx.event("discarded:ill-conditioned")
        return
    GC.optimize_quiet(g1, tol=0.0, max_iter=k, fix_first_pose=ff, verbose=False)
    GC.optimize_quiet(g2, tol=0.0, max_iter=k, fix_first_pose=ff, verbose=False)
    if not GC.all_finite(g1):
        ctx.event("discarded:nonfinite-base-run")
        return
    if not GC.all_finite(g2):
        return ctx.fail("transformed-run-nonfinite", "the transformed graph produced non-finite poses while the original did not")
    amp = max(1.0, cond * 1e-4)
    worst_t = worst_r = 0.0
    for i, (v1, v2) in enumerate(zip(g1._vertices, g2._vertices)):
        kk = gs.kind_of(v1.pose)
        p1 = gs.stored(v1.pose)
        want = R.mul(base, Tv, p1) if kk == base else R.act(base, Tv, p1)
        want = [R.val(x) for x in want]
        dt, dr = GC.pose_diff(kk, gs.stored(v2.pose), want)
        tt = 1e-10 * (1 + S_ + ST) * amp
        tr = 1e-8 * amp * (1 + 1e-4 * ST)
        worst_t, worst_r = max(worst_t, dt / tt), max(worst_r, dr / tr)
        if not (dt <= tt and dr <= tr):
            return ctx.fail("trajectory-frame-dependent", "vertex #%d after %d iteration(s): T(+)v_k differs from v'_k by (%.3e, %.3e), tol (%.3e, %.3e)" % (i, k, dt, dr, tt, tr))
    ctx.deviation("trajectory translation", worst_t, 1.0)
    ctx.deviation("trajectory rotation", worst_r, 1.0)

    # (3) a run that stops by its own convergence test (default tol) also commutes with T
    from .c08 import _report_ambiguous

    g3, g4 = GG.build(case), GG.build(case2)
    ra, _ = GC.optimize_quiet(g3, fix_first_pose=ff, verbose=False)
    rb, _ = GC.optimize_quiet(g4, fix_first_pose=ff, verbose=False)
    rn = 1e-9 * (1 + S_ + ST) * amp
    if not GC.all_finite(g3):
        ctx.event("default-run:nonfinite-skipped")
        return
    if (ra.num_iterations, bool(ra.converged)) != (rb.num_iterations, bool(rb.converged)):
        # the two runs stopped at different iterations: legitimate only if a stopping comparison of one of them lies within the
        # rounding noise of its threshold (then nothing further can be compared: the states are different iterates)
        if _report_ambiguous(ra, 1e-4, rn, tol_sum) or _report_ambiguous(rb, 1e-4, rn, tol_sum):
            ctx.event("default-run:stopped-at-different-iterations:ambiguous-threshold")
            return
        return ctx.fail("report-frame-dependent", "default optimize(): (num_iterations, converged) = %r in the original frame, %r in the transformed frame" % ((ra.num_iterations, ra.converged), (rb.num_iterations, rb.converged)))
    for i, (v1, v2) in enumerate(zip(g3._vertices, g4._vertices)):
        kk = gs.kind_of(v1.pose)
        p1 = gs.stored(v1.pose)
        want = R.mul(base, Tv, p1) if kk == base else R.act(base, Tv, p1)
        want = [R.val(x) for x in want]
        dt, dr = GC.pose_diff(kk, gs.stored(v2.pose), want)
        tt = 1e-10 * (1 + S_ + ST) * amp
        tr = 1e-8 * amp * (1 + 1e-4 * ST)
        if not (dt <= tt and dr <= tr):
            return ctx.fail("trajectory-frame-dependent", "vertex #%d after a default optimize() (%d iterations): T(+)v differs from v' by (%.3e, %.3e), tol (%.3e, %.3e)" % (i, ra.num_iterations, dt, dr, tt, tr))
    ctx.event("default-run:compared")
