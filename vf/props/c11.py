"""C11 - manifold invariants: SE(2) angle range / congruence and unit quaternions."""
import math

import numpy as np

from .. import exactangle as XA, graphcheck as GC, graphgen as GG, gs, refmodel as R, strategies as S

ID = "C11"
RULE = (
    "Histories: (a) operation programs on SE2 / SE3 poses - up to 40 entries (op in {oplus, ominus, inverse, boxplus, copy, rev-oplus, rev-ominus}, operand, "
    "repeat <= 1000), i.e. chains of up to 1e4 successive operations; SE2 operands and constructor inputs with |theta| up to 1e6, angles on both "
    "sides of +-pi; (b) SE2 constructor / from_matrix / copy on arbitrary finite angles; (c) optimizer runs of 1..50 iterations on SE3 and SE2 "
    "graphs inside and outside the convergence neighbourhood (finite runs judged); (d) normalize() on quaternions scaled by 1e-3..1e3 with either "
    "sign. Oracles: every produced SE2 angle lies in [-pi,pi] and is congruent mod 2*pi (exact rational arithmetic, 80-digit pi) to the exact "
    "sum/difference/negation of its operands' stored angles; every produced SE3 quaternion is unit within 4*eps*(N+2) after N operations; "
    "normalize() gives unit norm, w >= 0 and the same rotation. Non-trivial = chain length >= 100, |theta| > 100, or an optimizer run >= 10 iterations."
)
BUDGET = {"quick": 16 * 500, "thorough": 16 * 8000}
TOLERANCES = {
    "SE2 congruence": "8*eps*(|theta_exact| + pi) per operation, exact rational distance",
    "SE2 range": "-pi <= theta <= pi (float pi)",
    "SE3 norm": "| |q| - 1 | <= 4*eps*(N+2) after N operations (optimizer: N = iterations)",
    "normalize": "| |q| - 1 | <= 4*eps, w >= 0, rotation matrix equal to the reference (2/|q|^2 form) within 1e-12",
}
ASSUMPTIONS = ["operand quaternions are unit to ~1 ulp", "exact arithmetic on the stored operand values; float pi bounds for the range"]

EPS = 2.0**-52
OPS = ["oplus", "oplus", "ominus", "inverse", "boxplus", "boxplus", "copy", "rev-oplus", "rev-ominus", "inplace-then-inverse"]


@S.composite
def strategy_(g):
    shape = g.choice(["chain", "chain", "chain", "construct", "optimize", "normalize"])
    rnd = g.rnd
    if shape == "chain":
        k = g.choice(["se2", "se3"])
        start = g.pose(k, s=g.scale(1e3), big_angle=True)
        nent = g.integer(1, 40)
        prog = []
        for _ in range(nent):
            op = g.choice(OPS)
            rep = g.choice([1, 1, 1, 2, 3, 10, 30, 100, 300, 1000])
            if op == "boxplus":
                operand = g.compact_increment(k, max_scale=1.0)
                if k == "se2" and rnd.random() < 0.3:
                    operand[2] = g.angle(big=True)
                if rnd.random() < 0.2:
                    # the increment as an integer-dtype ndarray (whole metres / whole radians)
                    operand = [rnd.randint(-3, 3) for _ in range(R.PDIM[k])]
                    if k == "se2":
                        operand.append(rnd.randint(-7, 7))
                    xdt = rnd.choice(["int64", "int32", "int16", "int8"])
                    if k == "se3":
                        rot = [0, 0, 0]
                        r_ = rnd.random()
                        if r_ < 0.4:
                            rot[rnd.randrange(3)] = rnd.choice([1, -1])
                        elif r_ < 0.7:
                            # a rotation part far longer than 1 (the update applies no rotation then), large for the dtype
                            big = {"int8": [12, -100, 127], "int16": [200, -181, 32767], "int32": [50000, -65536], "int64": [2**32, -(2**33)]}[xdt]
                            rot[rnd.randrange(3)] = rnd.choice(big)
                        operand += rot
                    prog.append({"op": op, "x": operand, "rep": rep, "xdtype": xdt})
                    continue
            else:
                operand = g.pose(k, s=1.0, big_angle=True)["v"]
            prog.append({"op": op, "x": operand, "rep": rep})
        # cap the total length at 1e4
        tot = 0
        for e in prog:
            e["rep"] = max(1, min(e["rep"], 10000 - tot)) if tot < 10000 else 1
            tot += e["rep"]
        return {"shape": shape, "k": k, "start": start, "prog": prog}
    if shape == "construct":
        return {"shape": shape, "thetas": [g.angle(big=True) for _ in range(g.integer(1, 20))], "xy": g.vec(2)}
    if shape == "normalize":
        q = g.unit_quat()
        sc = g.choice(["wide", "wide", "one", "near-one"])
        scale = 10.0 ** rnd.uniform(-3, 3) if sc == "wide" else 1.0 if sc == "one" else 1.0 + rnd.choice([1.0, -1.0]) * 10.0 ** rnd.uniform(-15, -3)
        return {"shape": shape, "q": q, "scale": scale, "t": g.vec(3)}
    regime = g.choice(["near", "wild"])
    kw = dict(bases=("se3", "se3", "se2"), n_pose=(2, 8), n_lm=(0, 3), n_loops=(0, 3), conds=(1.0, 1e2), features=("parallel", "reversed", "permute", "multifixed", "quat-signs", "pure-translation-steps"))
    kw.update(dict(noise=(0.05, 0.05), pert=(0.3, 0.3)) if regime == "near" else dict(noise=(0.5, 0.5), pert=(3.0, 3.0)))
    case = GG.gen(g, **kw)
    case["shape"] = shape
    case["regime"] = regime
    case["iters"] = g.choice([1, 2, 5, 10, 20, 50])
    return case


def strategy(tier):
    return strategy_()


def summarise(case):
    if case["shape"] == "optimize":
        s = GG.summarise(case)
        s["shape"], s["iters"], s["regime"] = "optimize", case["iters"], case["regime"]
        return s
    if case["shape"] == "chain":
        return {"shape": "chain", "k": case["k"], "start": case["start"], "prog": [{"op": e["op"], "rep": e["rep"], "x": e["x"]} for e in case["prog"][:6]], "entries": len(case["prog"]), "length": sum(e["rep"] for e in case["prog"])}
    return case


def _angle_ok(ctx, what, got, exact):
    """got in [-pi,pi] and congruent to the exact rational angle."""
    got = float(got)
    if not (-math.pi <= got <= math.pi):
        return ctx.fail("se2-angle-out-of-range", "%s produced angle %r outside [-pi, pi]" % (what, got))
    res = XA.residual_mod_2pi(got, exact)
    tol = 8 * EPS * (abs(float(exact)) + math.pi)
    ctx.deviation("se2 congruence", float(res), tol)
    if not (res <= tol):
        return ctx.fail("se2-angle-not-congruent", "%s: angle %r is %.3e away (mod 2pi) from the exact value %r (tol %.3e)" % (what, got, float(res), float(exact), tol))
    return False


def _norm_ok(ctx, what, q, n_ops):
    nq = math.sqrt(math.fsum(float(x) * float(x) for x in q))
    tol = 4 * EPS * (n_ops + 2)
    ctx.deviation("se3 norm drift", abs(nq - 1.0), tol)
    if not (abs(nq - 1.0) <= tol):
        return ctx.fail("se3-quaternion-not-unit", "%s: | |q| - 1 | = %.3e > %.3e after %d operation(s)" % (what, abs(nq - 1.0), tol, n_ops))
    return False


def _check_chain(case, ctx):
    k = case["k"]
    cls = gs.CLS[k]
    length = sum(e["rep"] for e in case["prog"])
    ctx.event("chain:" + k)
    ctx.event("chain-length:%s" % (">=1000" if length >= 1000 else ">=100" if length >= 100 else "<100"))
    big = any(abs(x) > 100 for e in case["prog"] if k == "se2" for x in e["x"][2:3]) or (k == "se2" and abs(case["start"]["v"][2]) > 100)
    if big:
        ctx.event("|theta|>100")
    ctx.nontrivial(length >= 100 or big)
    p = gs.mk_pose(case["start"])
    if k == "se2":
        if _angle_ok(ctx, "constructor", p[2], XA.frac(case["start"]["v"][2])):
            return
    n = 0
    for e in case["prog"]:
        op = e["op"]
        if op == "boxplus":
            x = np.array(e["x"], dtype=e.get("xdtype") or float)
            if e.get("xdtype"):
                ctx.event("boxplus-increment-dtype:" + e["xdtype"])
            xa = XA.frac(float(x[2])) if k == "se2" else None
        else:
            x = gs.mk_pose_kv(k, e["x"])
            if k == "se2":
                if _angle_ok(ctx, "constructor", x[2], XA.frac(e["x"][2])):
                    return
                xa = XA.frac(x[2])
        for r in range(e["rep"]):
            prev = p
            if op == "oplus":
                p = prev + x
            elif op == "rev-oplus":
                p = x + prev
            elif op == "ominus":
                p = prev - x
            elif op == "rev-ominus":
                p = x - prev
            elif op == "inverse":
                p = prev.inverse
            elif op == "boxplus":
                p = prev
                p += x
            elif op == "inplace-then-inverse":
                # the same object is used, modified in place (poses are ndarrays; normalize() does that too), used again
                _ = prev.inverse
                w = prev.copy()
                _ = w.inverse
                if k == "se2":
                    np.asarray(w)[2] = float(x[2])  # an angle already in range (x went through the constructor)
                else:
                    np.asarray(w)[3:] = np.asarray(x)[3:] * 3.0
                    w.normalize()
                prev = w
                p = w.inverse
                op_eff = "inverse"
            else:
                p = prev.copy()
            n += 1
            if type(p) is not cls:
                return ctx.fail("type", "%s returned %s" % (op, type(p).__name__))
            if not gs.finite(p):
                # translations may overflow in very long chains only if something is wrong: chains are bounded (|t| <= 1e3 + 1e4)
                return ctx.fail("nonfinite", "%s produced a non-finite pose after %d operations" % (op, n))
            if k == "se2":
                th = float(p[2])
                if not (-math.pi <= th <= math.pi):
                    return ctx.fail("se2-angle-out-of-range", "%s produced angle %r outside [-pi, pi] (operation %d)" % (op, th, n))
                if r < 12 or r == e["rep"] - 1 or r % 97 == 0:
                    a = XA.frac(prev[2])
                    if op in ("oplus", "rev-oplus", "boxplus"):
                        exact = a + xa
                    elif op == "ominus":
                        exact = a - xa
                    elif op == "rev-ominus":
                        exact = xa - a
                    elif op in ("inverse", "inplace-then-inverse"):
                        exact = -a
                    else:
                        exact = a
                    if _angle_ok(ctx, op, th, exact):
                        return
            else:
                if _norm_ok(ctx, op, np.asarray(p)[3:], n):
                    return


def _check_construct(case, ctx):
    ctx.event("construct")
    big = any(abs(t) > 100 for t in case["thetas"])
    ctx.nontrivial(big)
    for t in case["thetas"]:
        p = gs.PoseSE2(case["xy"], t)
        if _angle_ok(ctx, "PoseSE2(...)", p[2], XA.frac(t)):
            return
        c = p.copy()
        if _angle_ok(ctx, "copy", c[2], XA.frac(p[2])):
            return
        # construction from .g2o text (the importer builds poses too): vertex pose and odometry measurement
        line = "VERTEX_SE2 7 %r %r %r" % (float(case["xy"][0]), float(case["xy"][1]), float(t))
        vx = gs.Vertex.from_g2o(line)
        if vx is None or type(vx.pose) is not gs.PoseSE2:
            return ctx.fail("se2-import", "Vertex.from_g2o(%r) returned %r" % (line, vx))
        if _angle_ok(ctx, "Vertex.from_g2o(VERTEX_SE2 ...)", vx.pose[2], XA.frac(t)):
            return
        line = "EDGE_SE2 7 8 %r %r %r 1 0 0 1 0 1" % (float(case["xy"][0]), float(case["xy"][1]), float(t))
        ex = gs.EdgeOdometry.from_g2o(line, {})
        if ex is None or type(ex.estimate) is not gs.PoseSE2:
            return ctx.fail("se2-import", "EdgeOdometry.from_g2o(%r) returned %r" % (line, ex))
        if _angle_ok(ctx, "EdgeOdometry.from_g2o(EDGE_SE2 ...)", ex.estimate[2], XA.frac(t)):
            return
        m = gs.PoseSE2.from_matrix(p.to_matrix())
        th = float(m[2])
        if not (-math.pi <= th <= math.pi):
            return ctx.fail("se2-angle-out-of-range", "from_matrix produced %r" % th)
        if abs(R.wrap(th - float(p[2]))) > 1e-14:
            return ctx.fail("se2-angle-not-congruent", "from_matrix(to_matrix(p)) angle %r vs %r" % (th, float(p[2])))
        from graphslam.util import neg_pi_to_pi

        # an earlier call with a float32 angle (no claim about its own accuracy) must not influence later float64 calls
        t32 = float(np.float32(t))
        _ = gs.PoseSE2(case["xy"], np.float32(t))
        _ = neg_pi_to_pi(np.float32(t))
        p32 = gs.PoseSE2(case["xy"], t32)
        if _angle_ok(ctx, "PoseSE2(...) after a float32 call with the same value", p32[2], XA.frac(t32)):
            return
        if _angle_ok(ctx, "neg_pi_to_pi after a float32 call with the same value", float(neg_pi_to_pi(t32)), XA.frac(t32)):
            return
        w = float(neg_pi_to_pi(t))
        if _angle_ok(ctx, "neg_pi_to_pi", w, XA.frac(t)):
            return


def _check_normalize(case, ctx):
    ctx.event("normalize")
    q = [x * case["scale"] for x in case["q"]]
    ctx.nontrivial(case["q"][3] < 0 or not (0.5 < case["scale"] < 2))
    if abs(case["scale"] - 1.0) < 1e-3:
        ctx.event("normalize:already-(nearly)-unit")
    p = gs.PoseSE3(case["t"], q)
    want_R = R.rotmat(q)
    t0 = gs.bits(np.asarray(p)[:3])
    ret = p.normalize()
    qq = [float(x) for x in np.asarray(p)[3:]]
    nq = math.sqrt(math.fsum(x * x for x in qq))
    if not (abs(nq - 1.0) <= 4 * EPS):
        return ctx.fail("normalize-not-unit", "| |q| - 1 | = %.3e after normalize()" % abs(nq - 1.0))
    if not (qq[3] >= 0.0):
        return ctx.fail("normalize-negative-w", "w = %r after normalize()" % qq[3])
    if ctx.check_close("normalize-changed-rotation", "rotation after normalize", R.rotmat(qq), want_R, 1e-12):
        return
    if gs.bits(np.asarray(p)[:3]) != t0:
        return ctx.fail("normalize-changed-translation", "normalize() changed the translation")


def _check_optimize(case, ctx):
    ctx.event("optimize:" + case["regime"])
    iters = case["iters"]
    ctx.nontrivial(iters >= 10)
    g = GG.build(case)
    for step in range(iters):
        GC.optimize_quiet(g, tol=0.0, max_iter=1, fix_first_pose=case["fix_first"], verbose=False)
        if not GC.all_finite(g):
            ctx.event("optimize:diverged-nonfinite")
            return
        for i, v in enumerate(g._vertices):
            k = gs.kind_of(v.pose)
            if k == "se3":
                if _norm_ok(ctx, "vertex #%d after %d optimizer iteration(s)" % (i, step + 1), np.asarray(v.pose)[3:], step + 1):
                    return
            elif k == "se2":
                th = float(v.pose[2])
                if not (-math.pi <= th <= math.pi):
                    return ctx.fail("se2-angle-out-of-range", "vertex #%d has angle %r after %d optimizer iteration(s)" % (i, th, step + 1))


def check(case, ctx):
    sh = case["shape"]
    if sh == "chain":
        return _check_chain(case, ctx)
    if sh == "construct":
        return _check_construct(case, ctx)
    if sh == "normalize":
        return _check_normalize(case, ctx)
    return _check_optimize(case, ctx)
