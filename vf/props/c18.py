"""C18 - graph construction binds edges by vertex id and rejects ill-typed edges."""
import itertools

import numpy as np

from .. import graphgen as GG, gs, refmodel as R, strategies as S

ID = "C18"
EXHAUSTIVE = True
RULE = (
    "Exhaustive product (enumerated completely on every run, sharded over the workers): edge kind {odometry, landmark} x vertex count {1,2,3} x "
    "pose type of each endpoint (4 each) x measurement type {4 pose types, plain ndarray} x offset type {4 pose types, None, plain ndarray} "
    "(landmark) x information shape {1..7 square, non-square, 1-D} x each named id present/absent (plus, for three named ids, one id repeating another): construction through Graph(edges, vertices) must "
    "raise iff a validity predicate written from the documentation is false; an accepted edge is bound to the listed vertices and has a finite "
    "chi2. Plus a Hypothesis part: generated valid graphs with permuted vertex lists and negative / sparse / > 2^63 ids - every edge is bound to "
    "the vertex objects whose ids it names irrespective of list order (also when the edge objects were bound in another graph before), and the same graph with one edge naming an unknown id raises. "
    "Non-trivial = exactly one attribute inconsistent (near miss) or a consistent combination; distinct = the combination itself."
)
BUDGET = {"quick": 16 * 300, "thorough": 16 * 2000}
TOLERANCES = {"chi2 of an accepted edge": "finite"}
ASSUMPTIONS = [
    "validity is enforced by an assert inside Graph construction: behaviour under python -O is out of scope",
    "landmark pairing predicate: supported models are SE2->R2, SE3->R3, R2->R2, R3->R3 (the property's own enumeration of landmark edges)",
]

KINDS = ["r2", "r3", "se2", "se3"]
INFO_SHAPES = [(n, n) for n in range(1, 8)] + ["nonsquare", "1d"]
SUPPORTED_LM = {("se2", "r2"), ("se3", "r3"), ("r2", "r2"), ("r3", "r3")}


def enumerate_cases():
    for ek in ("odo", "lm"):
        for nv in (1, 2, 3):
            for vk in itertools.product(KINDS, repeat=nv):
                for mk in KINDS + ["ndarray"]:
                    for ok in (KINDS + ["none", "ndarray"]) if ek == "lm" else [None]:
                        for ish in INFO_SHAPES:
                            for present in itertools.product((True, False), repeat=nv):
                                yield {"shape": "combo", "ek": ek, "vk": list(vk), "mk": mk, "ok": ok, "ish": list(ish) if isinstance(ish, tuple) else ish, "present": list(present)}
                            if nv == 3:
                                # three named ids of which one repeats another (still three vertices named => invalid)
                                for dup in ([2, 1], [2, 0], [1, 0]):
                                    if vk[dup[0]] == vk[dup[1]]:
                                        yield {"shape": "combo", "ek": ek, "vk": list(vk), "mk": mk, "ok": ok, "ish": list(ish) if isinstance(ish, tuple) else ish, "present": [True, True, True], "dup": dup}


@S.composite
def strategy_(g):
    case = GG.gen(g, n_pose=(2, 6), n_lm=(0, 3), n_loops=(0, 3), features=("parallel", "reversed", "permute", "ids", "custom", "quat-signs", "lm_odo"), custom_flavour="ana")
    case["shape"] = "graph"
    case["break_edge"] = g.rnd.randrange(10**6)
    case["break_pos"] = g.rnd.randrange(10**6)
    return case


def strategy(tier):
    return strategy_()


def summarise(case):
    return case if case["shape"] == "combo" else GG.summarise(case)


def _pose(kind):
    return gs.mk_pose_kv(kind, [0.3, -0.2] if kind == "r2" else [0.3, -0.2, 0.1] if kind == "r3" else [0.3, -0.2, 0.4] if kind == "se2" else [0.3, -0.2, 0.1, 0.0, 0.0, 0.6, 0.8])


def _measurement(mk, want_kind):
    if mk == "ndarray":
        return np.zeros(R.DIM[want_kind] if want_kind else 3)
    return _pose(mk)


def _info(ish, c):
    if ish == "nonsquare":
        return np.ones((c, c + 1))
    if ish == "1d":
        return np.ones(c)
    return np.eye(ish[0])


def predicate(case):
    """Validity predicate written from the documentation.  Returns (valid, number of inconsistent attributes)."""
    ek, vk, mk, ok, ish, present = case["ek"], case["vk"], case["mk"], case["ok"], case["ish"], case["present"]
    bad = 0
    if len(vk) != 2:
        bad += 1
    if not all(present):
        bad += 1
    if ek == "odo":
        t = vk[0]
        if len(vk) >= 2 and vk[1] != t:
            bad += 1
        if mk != t:
            bad += 1
        if ish != [R.CDIM[t]] * 2:
            bad += 1
    else:
        if ok != vk[0]:
            bad += 1
        second = vk[1] if len(vk) >= 2 else None
        if second is None or mk != second:
            bad += 1
        if second is None or ish != [R.CDIM[second]] * 2:
            bad += 1
        if second is not None and (vk[0], second) not in SUPPORTED_LM:
            bad += 1
    return bad == 0, bad


def _check_combo(case, ctx):
    ek, vk, mk, ok, ish, present = case["ek"], case["vk"], case["mk"], case["ok"], case["ish"], case["present"]
    valid, nbad = predicate(case)
    ctx.nontrivial(nbad <= 1)
    ctx.event("combo:%s:%s" % (ek, "valid" if valid else "invalid-%d" % min(nbad, 3)))
    nv = len(vk)
    verts = [gs.Vertex(10 + i, _pose(k)) for i, k in enumerate(vk)]
    extra = gs.Vertex(5, _pose("se2"))
    ids = [10 + i if p else 100 + i for i, p in enumerate(present)]
    if case.get("dup"):
        ids[case["dup"][0]] = ids[case["dup"][1]]
        ctx.event("combo:repeated-id")
    if ek == "odo":
        c = R.CDIM[vk[0]]
        edge = gs.EdgeOdometry(ids, _info(ish, c), _measurement(mk, vk[0]))
    else:
        second = vk[1] if nv >= 2 else vk[0]
        c = R.CDIM[second]
        off = None if ok == "none" else (np.zeros(R.DIM[vk[0]]) if ok == "ndarray" else _pose(ok))
        edge = gs.EdgeLandmark(ids, _info(ish, c), _measurement(mk, second), off, offset_id=0)
    vlist = [extra] + verts[::-1]
    try:
        g = gs.Graph([edge], vlist)
        raised = None
    except Exception as exc:  # noqa: BLE001
        raised = exc
    what = "%s edge over %s, measurement %s, offset %s, information %s, ids present %s" % (ek, vk, mk, ok, ish, present)
    if valid and raised is not None:
        return ctx.fail("consistent-edge-rejected", "%s: %s: %s" % (what, type(raised).__name__, raised))
    if not valid and raised is None:
        only_pairing = ek == "lm" and nbad == 1 and nv == 2 and (vk[0], vk[1]) not in SUPPORTED_LM
        sig = "inconsistent-edge-accepted" + (":landmark-pairing" if only_pairing else "")
        return ctx.fail(sig, what)
    if valid:
        for i, v in enumerate(edge.vertices):
            if v is not verts[i] or v.id != edge.vertex_ids[i]:
                return ctx.fail("edge-bound-to-wrong-vertex", what)
        chi = float(edge.calc_chi2())
        if not np.isfinite(chi):
            return ctx.fail("accepted-edge-chi2-nonfinite", what)
        if not np.isfinite(float(g.calc_chi2())):
            return ctx.fail("accepted-edge-chi2-nonfinite", what)


def _check_graph(case, ctx):
    GG.classify(case, ctx)
    ctx.event("graph-binding")
    feats = set(case["meta"]["feats"])
    ctx.nontrivial("permute" in feats or "ids" in feats)
    g = GG.build(case)
    by_id = {}
    for v in g._vertices:
        by_id[v.id] = v
    listed = {id(v) for v in g._vertices}
    for i, (e, ed) in enumerate(zip(g._edges, case["edges"])):
        if list(e.vertex_ids) != list(ed["ids"]):
            return ctx.fail("vertex-ids-changed", "edge #%d vertex_ids %r, constructed with %r" % (i, e.vertex_ids, ed["ids"]))
        if e.vertices is None or len(e.vertices) != len(ed["ids"]):
            return ctx.fail("edge-bound-to-wrong-vertex", "edge #%d has %r vertices for ids %r" % (i, None if e.vertices is None else len(e.vertices), ed["ids"]))
        for j, vid in enumerate(ed["ids"]):
            if e.vertices[j] is not by_id[vid] or id(e.vertices[j]) not in listed:
                return ctx.fail("edge-bound-to-wrong-vertex", "edge #%d slot %d names id %r but is bound to the vertex with id %r" % (i, j, vid, e.vertices[j].id))
    # gradient indices follow list order and compact dimensions
    o = 0
    for i, v in enumerate(g._vertices):
        if v.gradient_index != o:
            return ctx.fail("gradient-index", "vertex #%d has gradient_index %r, expected %d" % (i, v.gradient_index, o))
        o += R.CDIM[gs.kind_of(v.pose)]
    # the same edge objects put into a second graph over NEW vertex objects (same ids, other poses) are bound to the
    # second graph's vertices: a graph attaches each edge to *its* vertices by id
    import copy as _copy

    c3 = _copy.deepcopy(case)
    for v in c3["verts"]:
        v["p"]["v"] = [x + 0.25 if i < R.PDIM[v["p"]["k"]] else x for i, x in enumerate(v["p"]["v"])]
    verts2 = [gs.Vertex(v["id"], gs.mk_pose(v["p"]), fixed=bool(v["fixed"])) for v in c3["verts"]]
    g2 = gs.Graph(list(g._edges), verts2)
    by_id2 = {v.id: v for v in verts2}
    for i, (e, ed) in enumerate(zip(g2._edges, case["edges"])):
        for j, vid in enumerate(ed["ids"]):
            if e.vertices[j] is not by_id2[vid]:
                return ctx.fail("edge-not-rebound-to-new-graph", "edge #%d slot %d (id %r) is still bound to a vertex object of the previous graph" % (i, j, vid))
    # the same graph with one edge naming an unknown id must be rejected
    if case["edges"]:
        import copy

        c2 = copy.deepcopy(case)
        e = c2["edges"][case["break_edge"] % len(c2["edges"])]
        unknown = max(abs(v["id"]) for v in c2["verts"]) + 17
        e["ids"][case["break_pos"] % len(e["ids"])] = unknown
        try:
            GG.build(c2)
        except Exception:  # noqa: BLE001
            return
        return ctx.fail("unknown-vertex-accepted", "a graph with an edge naming the unknown id %r was constructed" % unknown)


def check(case, ctx):
    if case["shape"] == "combo":
        return _check_combo(case, ctx)
    return _check_graph(case, ctx)
