"""C18 - graph construction binds edges by vertex id and rejects ill-typed edges."""
import itertools

import numpy as np

from .. import graphgen as GG, gs, refmodel as R, strategies as S

ID = "C18"
EXHAUSTIVE = True
RULE = (
    "Exhaustive product (enumerated completely on every run, sharded over the workers): edge kind {odometry, landmark} x vertex count {1,2,3} x "
    "pose type of each endpoint (4 each) x measurement type {4 pose types, plain ndarray} x offset type {4 pose types, None, plain ndarray} "
    "(landmark) x information shape {1..7 square, non-square, 1-D} x each named id present/absent (plus, for three named ids, one id repeating another): construction through Graph(edges, vertices) must "
    "raise iff a validity predicate written from the documentation is false; an accepted edge is bound to the listed vertices and has a finite "
    "chi2. Plus a Hypothesis part: generated valid graphs with permuted vertex lists and negative / sparse / > 2^63 ids - every edge is bound to "
    "the vertex objects whose ids it names irrespective of list order (also when the edge objects were bound in another graph before), and the same graph with one edge naming an unknown id raises. "
    "Non-trivial = exactly one attribute inconsistent (near miss) or a consistent combination; distinct = the combination itself."
)
BUDGET = {"quick": 16 * 300, "thorough": 16 * 2000}
TOLERANCES = {"chi2 of an accepted edge": "finite"}
ASSUMPTIONS = [
    "validity is enforced by an assert inside Graph construction: behaviour under python -O is out of scope",
    "landmark pairing predicate: supported models are SE2->R2, SE3->R3, R2->R2, R3->R3 (the property's own enumeration of landmark edges)",
]

KINDS = ["r2", "r3", "se2", "se3"]
INFO_SHAPES = [(n, n) for n in range(1, 8)] + ["nonsquare", "1d"]
SUPPORTED_LM = {("se2", "r2"), ("se3", "r3"), ("r2", "r2"), ("r3", "r3")}


def enumerate_cases():
    for ek in ("odo", "lm"):
        for nv in (1, 2, 3):
            for vk in itertools.product(KINDS, repeat=nv):
                for mk in KINDS + ["ndarray"]:
                    for ok in (KINDS + ["none", "ndarray"]) if ek == "lm" else [None]:
                        for ish in INFO_SHAPES:
                            for present in itertools.product((True, False), repeat=nv):
                                yield {"shape": "combo", "ek": ek, "vk": list(vk), "mk": mk, "ok": ok, "ish": list(ish) if isinstance(ish, tuple) else ish, "present": list(present)}
                            if nv == 3:
                                # three named ids of which one repeats another (still three vertices named => invalid)
                                for dup in ([2, 1], [2, 0], [1, 0]):
                                    if vk[dup[0]] == vk[dup[1]]:
                                        yield {"shape": "combo", "ek": ek, "vk": list(vk), "mk": mk, "ok": ok, "ish": list(ish) if isinstance(ish, tuple) else ish, "present": [True, True, True], "dup": dup}


@S.composite
def strategy_(g):
    if g.choice([False, False, True]):
        # a large valid graph (70..250 edges) with ONE inconsistent edge somewhere among the valid ones
        base = g.choice(["se2", "se3"])
        pk = R.POINT_OF[base]
        nv = g.integer(4, 12)
        nl = g.integer(2, 5)
        ne = g.integer(70, 250)
        rnd = g.rnd
        edges = []
        for _ in range(ne):
            if rnd.random() < 0.5:
                i, j = rnd.sample(range(nv), 2)
                edges.append({"t": "odo", "ids": [i, j]})
            else:
                edges.append({"t": "lm", "ids": [rnd.randrange(nv), nv + rnd.randrange(nl)]})
        bad_kind = g.choice(["offset-type", "offset-none", "measurement-type", "information-shape", "vertex-count", "unknown-id", "pose-types", "none"])
        return {"shape": "big", "base": base, "nv": nv, "nl": nl, "edges": edges, "bad": bad_kind, "pos": rnd.randrange(ne), "like": g.choice(["odo", "lm"]), "fixed": g.choice(["none", "none", "all", "some"])}
    case = GG.gen(g, n_pose=(2, 6), n_lm=(0, 3), n_loops=(0, 3), features=("parallel", "reversed", "permute", "ids", "custom", "quat-signs", "lm_odo", "pure-translation-steps"), custom_flavour="ana")
    case["shape"] = "graph"
    case["break_edge"] = g.rnd.randrange(10**6)
    case["break_pos"] = g.rnd.randrange(10**6)
    return case


def strategy(tier):
    return strategy_()


def summarise(case):
    if case["shape"] == "combo":
        return case
    if case["shape"] == "big":
        return {k: (v if k != "edges" else "%d edges" % len(v)) for k, v in case.items()}
    return GG.summarise(case)


def _pose(kind):
    return gs.mk_pose_kv(kind, [0.3, -0.2] if kind == "r2" else [0.3, -0.2, 0.1] if kind == "r3" else [0.3, -0.2, 0.4] if kind == "se2" else [0.3, -0.2, 0.1, 0.0, 0.0, 0.6, 0.8])


def _measurement(mk, want_kind):
    if mk == "ndarray":
        return np.zeros(R.DIM[want_kind] if want_kind else 3)
    return _pose(mk)


def _info(ish, c):
    if ish == "nonsquare":
        return np.ones((c, c + 1))
    if ish == "1d":
        return np.ones(c)
    return np.eye(ish[0])


def predicate(case):
    """Validity predicate written from the documentation.  Returns (valid, number of inconsistent attributes)."""
    ek, vk, mk, ok, ish, present = case["ek"], case["vk"], case["mk"], case["ok"], case["ish"], case["present"]
    bad = 0
    if len(vk) != 2:
        bad += 1
    if not all(present):
        bad += 1
    if ek == "odo":
        t = vk[0]
        if len(vk) >= 2 and vk[1] != t:
            bad += 1
        if mk != t:
            bad += 1
        if ish != [R.CDIM[t]] * 2:
            bad += 1
    else:
        if ok != vk[0]:
            bad += 1
        second = vk[1] if len(vk) >= 2 else None
        if second is None or mk != second:
            bad += 1
        if second is None or ish != [R.CDIM[second]] * 2:
            bad += 1
        if second is not None and (vk[0], second) not in SUPPORTED_LM:
            bad += 1
    return bad == 0, bad


def _check_combo(case, ctx):
    valid, nbad = predicate(case)
    ctx.nontrivial(nbad <= 1)
    ctx.event("combo:%s:%s" % (case["ek"], "valid" if valid else "invalid-%d" % min(nbad, 3)))
    # the fixed flags of the vertices have no bearing on validity: consistent combinations and near misses are also constructed
    # over anchored vertices (all fixed / only the named ones fixed / alternating)
    for fx in ["none"] + (["all", "named", "alternating"] if nbad <= 1 else []):
        if _combo_once(case, ctx, valid, nbad, fx):
            return


def _combo_once(case, ctx, valid, nbad, fx):
    ek, vk, mk, ok, ish, present = case["ek"], case["vk"], case["mk"], case["ok"], case["ish"], case["present"]
    nv = len(vk)
    verts = [gs.Vertex(10 + i, _pose(k), fixed=(fx in ("all", "named") or (fx == "alternating" and i % 2 == 0))) for i, k in enumerate(vk)]
    extra = gs.Vertex(5, _pose("se2"), fixed=(fx == "all"))
    if fx != "none":
        ctx.event("combo-fixed:" + fx)
    ids = [10 + i if p else 100 + i for i, p in enumerate(present)]
    if case.get("dup"):
        ids[case["dup"][0]] = ids[case["dup"][1]]
        ctx.event("combo:repeated-id")
    if ek == "odo":
        c = R.CDIM[vk[0]]
        edge = gs.EdgeOdometry(ids, _info(ish, c), _measurement(mk, vk[0]))
    else:
        second = vk[1] if nv >= 2 else vk[0]
        c = R.CDIM[second]
        off = None if ok == "none" else (np.zeros(R.DIM[vk[0]]) if ok == "ndarray" else _pose(ok))
        edge = gs.EdgeLandmark(ids, _info(ish, c), _measurement(mk, second), off, offset_id=0)
    vlist = [extra] + verts[::-1]
    try:
        g = gs.Graph([edge], vlist)
        raised = None
    except Exception as exc:  # noqa: BLE001
        raised = exc
    what = "%s edge over %s, measurement %s, offset %s, information %s, ids present %s%s" % (ek, vk, mk, ok, ish, present, "" if fx == "none" else ", fixed vertices: " + fx)
    if valid and raised is not None:
        return ctx.fail("consistent-edge-rejected", "%s: %s: %s" % (what, type(raised).__name__, raised)) or True
    if not valid and raised is None:
        only_pairing = ek == "lm" and nbad == 1 and nv == 2 and (vk[0], vk[1]) not in SUPPORTED_LM
        sig = "inconsistent-edge-accepted" + (":landmark-pairing" if only_pairing else "")
        return ctx.fail(sig, what) or True
    if valid:
        for i, v in enumerate(edge.vertices):
            if v is not verts[i] or v.id != edge.vertex_ids[i]:
                return ctx.fail("edge-bound-to-wrong-vertex", what) or True
        chi = float(edge.calc_chi2())
        if not np.isfinite(chi):
            return ctx.fail("accepted-edge-chi2-nonfinite", what) or True
        if not np.isfinite(float(g.calc_chi2())):
            return ctx.fail("accepted-edge-chi2-nonfinite", what) or True
    return False


def _check_graph(case, ctx):
    GG.classify(case, ctx)
    ctx.event("graph-binding")
    feats = set(case["meta"]["feats"])
    ctx.nontrivial("permute" in feats or "ids" in feats)
    g = GG.build(case)
    by_id = {}
    for v in g._vertices:
        by_id[v.id] = v
    listed = {id(v) for v in g._vertices}
    for i, (e, ed) in enumerate(zip(g._edges, case["edges"])):
        if list(e.vertex_ids) != list(ed["ids"]):
            return ctx.fail("vertex-ids-changed", "edge #%d vertex_ids %r, constructed with %r" % (i, e.vertex_ids, ed["ids"]))
        if e.vertices is None or len(e.vertices) != len(ed["ids"]):
            return ctx.fail("edge-bound-to-wrong-vertex", "edge #%d has %r vertices for ids %r" % (i, None if e.vertices is None else len(e.vertices), ed["ids"]))
        for j, vid in enumerate(ed["ids"]):
            if e.vertices[j] is not by_id[vid] or id(e.vertices[j]) not in listed:
                return ctx.fail("edge-bound-to-wrong-vertex", "edge #%d slot %d names id %r but is bound to the vertex with id %r" % (i, j, vid, e.vertices[j].id))
    # gradient indices follow list order and compact dimensions
    o = 0
    for i, v in enumerate(g._vertices):
        if v.gradient_index != o:
            return ctx.fail("gradient-index", "vertex #%d has gradient_index %r, expected %d" % (i, v.gradient_index, o))
        o += R.CDIM[gs.kind_of(v.pose)]
    # the same edge objects put into a second graph over NEW vertex objects (same ids, other poses) are bound to the
    # second graph's vertices: a graph attaches each edge to *its* vertices by id
    import copy as _copy

    c3 = _copy.deepcopy(case)
    for v in c3["verts"]:
        v["p"]["v"] = [x + 0.25 if i < R.PDIM[v["p"]["k"]] else x for i, x in enumerate(v["p"]["v"])]
    verts2 = [gs.Vertex(v["id"], gs.mk_pose(v["p"]), fixed=bool(v["fixed"])) for v in c3["verts"]]
    g2 = gs.Graph(list(g._edges), verts2)
    by_id2 = {v.id: v for v in verts2}
    for i, (e, ed) in enumerate(zip(g2._edges, case["edges"])):
        for j, vid in enumerate(ed["ids"]):
            if e.vertices[j] is not by_id2[vid]:
                return ctx.fail("edge-not-rebound-to-new-graph", "edge #%d slot %d (id %r) is still bound to a vertex object of the previous graph" % (i, j, vid))
    # construction through the .g2o importer obeys the same rule: a file whose edge names a vertex id that has no vertex line
    # must be rejected, and the same file without that line is accepted with the edge bound to the named vertices
    if _check_file_with_dangling_edge(case, ctx):
        return
    # the same graph with one edge naming an unknown id must be rejected
    if case["edges"]:
        import copy

        c2 = copy.deepcopy(case)
        e = c2["edges"][case["break_edge"] % len(c2["edges"])]
        unknown = max(abs(v["id"]) for v in c2["verts"]) + 17
        e["ids"][case["break_pos"] % len(e["ids"])] = unknown
        try:
            GG.build(c2)
        except Exception:  # noqa: BLE001
            return
        return ctx.fail("unknown-vertex-accepted", "a graph with an edge naming the unknown id %r was constructed" % unknown)


def _check_file_with_dangling_edge(case, ctx):
    import os
    import tempfile

    ids = [v["id"] for v in case["verts"]][:2]
    if len(ids) < 2:
        return False
    a, b = ids
    unknown = max(abs(v["id"]) for v in case["verts"]) + 23
    variant = case["break_edge"] % 4
    if variant == 0:
        head = ["VERTEX_SE2 %d 0 0 0" % a, "VERTEX_SE2 %d 1 0 0.1" % b, "EDGE_SE2 %d %d 1 0 0.1 1 0 0 1 0 1" % (a, b)]
        bad = "EDGE_SE2 %d %d 1 0 0 1 0 0 1 0 1" % (b, unknown)
    elif variant == 1:
        head = ["VERTEX_SE2 %d 0 0 0" % a, "VERTEX_XY %d 1 2" % b, "EDGE_SE2_XY %d %d 1 2 1 0 1" % (a, b)]
        bad = "EDGE_SE2_XY %d %d 1 2 1 0 1" % (a, unknown)
    elif variant == 2:
        i6 = " ".join("1" if r == c else "0" for r in range(6) for c in range(r, 6))
        head = ["VERTEX_SE3:QUAT %d 0 0 0 0 0 0 1" % a, "VERTEX_SE3:QUAT %d 1 0 0 0 0 0 1" % b, "EDGE_SE3:QUAT %d %d 1 0 0 0 0 0 1 %s" % (a, b, i6)]
        bad = "EDGE_SE3:QUAT %d %d 1 0 0 0 0 0 1 %s" % (unknown, a, i6)
    else:
        head = ["PARAMS_SE3OFFSET 0 0 0 0 0 0 0 1", "VERTEX_SE3:QUAT %d 0 0 0 0 0 0 1" % a, "VERTEX_TRACKXYZ %d 1 2 3" % b, "EDGE_SE3_TRACKXYZ %d %d 0 1 2 3 1 0 0 1 0 1" % (a, b)]
        bad = "EDGE_SE3_TRACKXYZ %d %d 0 1 2 3 1 0 0 1 0 1" % (a, unknown)
    ctx.event("file-with-dangling-edge:%d" % variant)
    fd, path = tempfile.mkstemp(prefix="vf_c18_", suffix=".g2o")
    os.close(fd)
    try:
        with open(path, "w") as f:
            f.write("\n".join(head) + "\n")
        try:
            g = gs.Graph.from_g2o(path)
        except Exception as exc:  # noqa: BLE001
            return ctx.fail("consistent-edge-rejected:file", "a consistent .g2o file was rejected: %s: %s" % (type(exc).__name__, exc)) or True
        if len(g._edges) != 1 or [v.id for v in g._edges[0].vertices] != [a, b]:
            return ctx.fail("edge-bound-to-wrong-vertex", "file import: %d edges, bound to %r, expected one edge over %r" % (len(g._edges), [[v.id for v in e.vertices] for e in g._edges], [a, b])) or True
        with open(path, "w") as f:
            f.write("\n".join(head + [bad]) + "\n")
        try:
            g = gs.Graph.from_g2o(path)
        except Exception:  # noqa: BLE001
            return False
        return ctx.fail("unknown-vertex-accepted:file", "a .g2o file whose edge names the unknown vertex id %d was loaded without an error (%d edges kept)" % (unknown, len(g._edges))) or True
    finally:
        os.unlink(path)


def _check_big(case, ctx):
    base, pk = case["base"], R.POINT_OF[case["base"]]
    nv, nl = case["nv"], case["nl"]
    ctx.event("big-graph")
    ctx.event("big-graph-bad:" + case["bad"])
    ctx.nontrivial(True)
    verts = [gs.Vertex(i, _pose(base)) for i in range(nv)] + [gs.Vertex(nv + i, _pose(pk)) for i in range(nl)]
    fxm = case.get("fixed", "none")
    ctx.event("big-graph-fixed:" + fxm)
    for i, v in enumerate(verts):
        v.fixed = fxm == "all" or (fxm == "some" and i % 3 != 1)
    c, cp = R.CDIM[base], R.CDIM[pk]

    def mk(e):
        if e["t"] == "odo":
            return gs.EdgeOdometry(list(e["ids"]), np.eye(c), _pose(base))
        return gs.EdgeLandmark(list(e["ids"]), np.eye(cp), _pose(pk), _pose(base), offset_id=0)

    edges = [mk(e) for e in case["edges"]]
    bad = case["bad"]
    pos = case["pos"] % len(edges)
    # the inconsistent edge is modelled on a valid edge of the same kind that occurs EARLIER in the list when possible
    kind = case["like"]
    cands = [i for i, e in enumerate(case["edges"]) if e["t"] == kind and i > 0]
    if bad != "none":
        if not cands:
            return
        pos = cands[pos % len(cands)]
        e = edges[pos]
        if bad == "offset-type":
            if kind != "lm":
                return
            e.offset = _pose("se3" if base == "se2" else "se2")
        elif bad == "offset-none":
            if kind != "lm":
                return
            e.offset = None
        elif bad == "measurement-type":
            e.estimate = _pose("r3" if (base == "se2" or kind == "lm" and pk == "r2") else "r2")
        elif bad == "information-shape":
            n0 = e.information.shape[0]
            e.information = np.eye(n0 + 1)
        elif bad == "vertex-count":
            e.vertex_ids = list(e.vertex_ids) + [0]
        elif bad == "unknown-id":
            e.vertex_ids = [e.vertex_ids[0], 10**6]
        elif bad == "pose-types":
            e.vertex_ids = [e.vertex_ids[0], nv] if kind == "odo" else [e.vertex_ids[0], (e.vertex_ids[0] + 1) % nv]
    try:
        gs.Graph(edges, verts)
        raised = None
    except Exception as exc:  # noqa: BLE001
        raised = exc
    if bad == "none":
        if raised is not None:
            return ctx.fail("consistent-edge-rejected", "a large graph of %d consistent edges was rejected: %s: %s" % (len(edges), type(raised).__name__, raised))
        for e, ed in zip(edges, case["edges"]):
            if [v.id for v in e.vertices] != list(ed["ids"]) or any(v is not verts[i] for v, i in zip(e.vertices, ed["ids"])):
                return ctx.fail("edge-bound-to-wrong-vertex", "large graph: an edge is not bound to the vertices it names")
        return
    if raised is None:
        return ctx.fail("inconsistent-edge-accepted:in-large-graph", "a graph of %d edges with one inconsistent %s edge (%s) at position %d was accepted" % (len(edges), kind, bad, pos))


def check(case, ctx):
    if case["shape"] == "combo":
        return _check_combo(case, ctx)
    if case["shape"] == "big":
        return _check_big(case, ctx)
    return _check_graph(case, ctx)
