"""C14 - .g2o import is faithful to the file."""
import logging
import math
import os
import shutil
import tempfile

import numpy as np

from .. import exactangle as XA, g2otext as GT, gs, refmodel as R, strategies as S
from graphslam import load as gload

ID = "C14"
RULE = (
    "Grammar-based text generation: files mixing every tag of the vocabulary (4 vertex tags, 4 edge tags, 2 parameter tags) plus two registered "
    "custom edge types (2 ids + scalar + 1x1 information; 3 ids + vector + triangular information), numbers rendered in exact round-trip formats "
    "(repr, %.17e, %.17g, leading '+', upper-case exponent, integers for integral floats, literals such as '.5', '5.', '1E3', '-0'), values "
    "incl. subnormal / 1e+-300 magnitudes, 1..4 spaces between fields, LF / CRLF / mixed endings, blank and whitespace-only lines, junk lines "
    "(comments, words, near-miss tags), any legal order (a parameter before the edges that use it, vertices anywhere), ids negative / signed / "
    "> 2^63. Oracle: the generator's own model of the file (values known from generation, not from re-parsing): one object per recognised line, "
    "in file order, numbers bit-identical (SE2 angles: exact reduction; EDGE_SE3:QUAT quaternion: +-q/|q| with w>=0), information = symmetric "
    "expansion of the row-major upper triangle, landmark offset = referenced parameter, EDGE_SE2_XY offset = identity; one warning per "
    "unrecognised non-blank line, carrying the line, in order; deleting junk/blank lines gives a bit-identical graph; all six loader entry "
    "points give bit-identical graphs. Non-trivial = the file mixes >= 3 line kinds and contains junk or a non-repr number format."
)
BUDGET = {"quick": 16 * 2000, "thorough": 16 * 15000}
TOLERANCES = {
    "numbers": "bit-identical",
    "SE2 angles": "in [-pi,pi], exact rational distance mod 2pi <= 8*eps*(|theta|+pi)",
    "EDGE_SE3:QUAT measurement quaternion": "+-q/|q| with w >= 0 within 4 ulp per component",
}
ASSUMPTIONS = ["well-formed files only (outside the grammar the property makes no claim)", "Python float()/int() are the trusted text-to-number primitives"]

EPS = 2.0**-52
ETYPE = {"EDGE_SE2": "EdgeOdometry", "EDGE_SE3:QUAT": "EdgeOdometry", "EDGE_SE2_XY": "EdgeLandmark", "EDGE_SE3_TRACKXYZ": "EdgeLandmark", "EDGE_VF_DIST": "EdgeVfDist", "EDGE_VF_TRI": "EdgeVfTri"}


@S.composite
def strategy_(g):
    return GT.gen_file(g)


def strategy(tier):
    return strategy_()


def summarise(case):
    return {"text": GT.file_text(case)[:1500], "n_lines": len(case["records"]), "dims": case["dims"], "order": case["order"], "eol": case["eol_mode"], "value_class": case["value_class"]}


class _Capture(logging.Handler):
    def __init__(self):
        super().__init__(level=logging.DEBUG)
        self.records = []

    def emit(self, record):
        self.records.append(record)


def load_with_log(fn, path, **kw):
    logger = logging.getLogger("graphslam.graph")
    h = _Capture()
    old_level = logger.level
    old_prop = logger.propagate
    logger.addHandler(h)
    logger.setLevel(logging.DEBUG)
    logger.propagate = False
    l2 = logging.getLogger("graphslam.load")
    old2 = l2.propagate
    l2.propagate = False
    nh = logging.NullHandler()
    l2.addHandler(nh)
    try:
        g = fn(path, **kw)
    finally:
        logger.removeHandler(h)
        logger.setLevel(old_level)
        logger.propagate = old_prop
        l2.removeHandler(nh)
        l2.propagate = old2
    return g, h.records


def graph_bits(g):
    """Canonical bit-exact description of a loaded graph."""
    vs = tuple((v.id, type(v.pose).__name__, gs.bits(v.pose), bool(v.fixed)) for v in g._vertices)
    es = []
    for e in g._edges:
        est = e.estimate
        eb = gs.bits(est) if isinstance(est, np.ndarray) else repr(float(est))
        off = getattr(e, "offset", None)
        es.append((type(e).__name__, tuple(e.vertex_ids), type(est).__name__, eb, np.asarray(e.information).shape, gs.bits(e.information), None if off is None else (type(off).__name__, gs.bits(off)), getattr(e, "offset_id", None), tuple(v.id for v in e.vertices)))
    ps = tuple(sorted((str(k), type(p).__name__, gs.bits(p.value)) for k, p in (g._g2o_params or {}).items()))
    return vs, tuple(es), ps


def _same_bits(a, b):
    return gs.bits(np.asarray(a, dtype=float)) == gs.bits(np.asarray(b, dtype=float))


def _check_angle(ctx, what, got, given):
    got = float(got)
    if not (-math.pi <= got <= math.pi):
        return ctx.fail("angle-out-of-range", "%s: loaded angle %r" % (what, got))
    res = XA.residual_mod_2pi(got, XA.frac(given))
    tol = 8 * EPS * (abs(given) + math.pi)
    if not (res <= tol):
        return ctx.fail("number-mismatch", "%s: loaded angle %r is not the reduction of %r in the file" % (what, got, given))
    return False


def check(case, ctx):
    recs = case["records"]
    kinds = set(r["kind"] + ":" + r.get("pk", r.get("et", r.get("pt", ""))) for r in recs if r["kind"] in ("vertex", "edge", "param"))
    has_junk = any(r["kind"] == "junk" for r in recs)
    text = GT.file_text(case)
    nonrepr = any(tok and (tok[0] == "+" or "E" in tok or (tok not in ("",) and _is_nonrepr(tok))) for r in recs if r["kind"] in ("vertex", "edge", "param") for tok in r["text"].split()[1:])
    ctx.nontrivial(len(kinds) >= 3 and (has_junk or nonrepr))
    ctx.event("dims:" + case["dims"])
    ctx.event("order:" + case["order"])
    ctx.event("eol:" + case["eol_mode"])
    ctx.event("values:" + case["value_class"])
    for k in kinds:
        ctx.event("line:" + k.split(":", 1)[1])
    if has_junk:
        ctx.event("has-junk")
    if any(r["kind"] == "blank" for r in recs):
        ctx.event("has-blank")

    exp_v = [r for r in recs if r["kind"] == "vertex"]
    exp_e = [r for r in recs if r["kind"] == "edge"]
    exp_p = [r for r in recs if r["kind"] == "param"]
    exp_w = [r["text"].rstrip() for r in recs if r["kind"] == "junk"]

    tmp = tempfile.mkdtemp(prefix="vf_c14_")
    try:
        path = os.path.join(tmp, "f.g2o")
        with open(path, "w", newline="") as f:
            f.write(text)
        g, logs = load_with_log(gs.Graph.from_g2o, path, custom_edge_types=list(GT.CUSTOM_TYPES_WITH_PARTIAL_CLAIM))

        # ---- vertices: one per line, in file order, exact numbers
        if len(g._vertices) != len(exp_v):
            return ctx.fail("object-count", "%d vertices loaded, %d vertex lines in the file" % (len(g._vertices), len(exp_v)))
        for i, (v, r) in enumerate(zip(g._vertices, exp_v)):
            if v.id != r["id"] or type(v.id) is not int:
                return ctx.fail("id-mismatch", "vertex #%d has id %r, file says %r" % (i, v.id, r["id"]))
            if gs.kind_of(v.pose) != r["pk"] or type(v.pose) is not gs.CLS[r["pk"]]:
                return ctx.fail("type-mismatch", "vertex #%d is %s, line is %s" % (i, type(v.pose).__name__, r["pk"]))
            got = gs.stored(v.pose)
            if r["pk"] == "se2":
                if not _same_bits(got[:2], r["vals"][:2]):
                    return ctx.fail("number-mismatch", "vertex #%d translation %r, file %r" % (i, got[:2], r["vals"][:2]))
                if _check_angle(ctx, "vertex #%d" % i, got[2], r["vals"][2]):
                    return
            elif not _same_bits(got, r["vals"]):
                return ctx.fail("number-mismatch", "vertex #%d numbers %r, file %r (%s)" % (i, got, r["vals"], r["text"]))
            if v.fixed:
                return ctx.fail("fixed-flag", "a loaded vertex is marked fixed")

        # ---- parameters
        gp = g._g2o_params or {}
        if len(gp) != len(exp_p):
            return ctx.fail("object-count", "%d parameters loaded, %d parameter lines" % (len(gp), len(exp_p)))
        for r in exp_p:
            key = (r["pt"], r["id"])
            if key not in gp:
                return ctx.fail("parameter-missing", "parameter %r not loaded" % (key,))
            val = gp[key].value
            got = gs.stored(val)
            if r["pt"] == "PARAMS_SE2OFFSET":
                if type(val) is not gs.PoseSE2 or not _same_bits(got[:2], r["vals"][:2]) or _check_angle(ctx, "param", got[2], r["vals"][2]):
                    return ctx.fail("number-mismatch", "parameter %r value %r, file %r" % (key, got, r["vals"]))
            else:
                if type(val) is not gs.PoseSE3 or not _same_bits(got, r["vals"]):
                    return ctx.fail("number-mismatch", "parameter %r value %r, file %r" % (key, got, r["vals"]))

        # ---- edges
        if len(g._edges) != len(exp_e):
            return ctx.fail("object-count", "%d edges loaded, %d edge lines" % (len(g._edges), len(exp_e)))
        for i, (e, r) in enumerate(zip(g._edges, exp_e)):
            et = r["et"]
            want_types = (ETYPE[et],)
            if et == "EDGE_SE2" and GT.claims_se2_line(r["ids"][0], r["ids"][1]):
                # also claimed by the registered partial-claim custom type; which of the two classes wins is not documented (both carry
                # the same numbers) - what IS required is that it does not depend on the rest of the file (checked below)
                want_types = ("EdgeVfLoopSE2", "EdgeOdometry")
                ctx.event("line-claimed-by-partial-custom-type")
            if type(e).__name__ not in want_types:
                return ctx.fail("type-mismatch", "edge #%d is %s for line %s %r, expected %s" % (i, type(e).__name__, et, list(r["ids"]), " or ".join(want_types)))
            if list(e.vertex_ids) != list(r["ids"]) or [v.id for v in e.vertices] != list(r["ids"]):
                return ctx.fail("id-mismatch", "edge #%d ids %r / bound %r, file %r" % (i, e.vertex_ids, [v.id for v in e.vertices], r["ids"]))
            info = np.asarray(e.information, dtype=float)
            if info.shape != np.array(r["info"]).shape or not _same_bits(info, r["info"]):
                return ctx.fail("information-mismatch", "edge #%d (%s) information %r, expected symmetric expansion %r" % (i, et, info.tolist(), r["info"]))
            z = r["z"]
            if et == "EDGE_SE2":
                got = gs.stored(e.estimate)
                if type(e.estimate) is not gs.PoseSE2 or not _same_bits(got[:2], z[:2]) or _check_angle(ctx, "edge #%d" % i, got[2], z[2]):
                    return ctx.fail("number-mismatch", "edge #%d measurement %r, file %r" % (i, got, z))
            elif et == "EDGE_SE3:QUAT":
                got = gs.stored(e.estimate)
                if type(e.estimate) is not gs.PoseSE3 or not _same_bits(got[:3], z[:3]):
                    return ctx.fail("number-mismatch", "edge #%d measurement %r, file %r" % (i, got, z))
                q = np.array(z[3:], dtype=float)
                n = math.sqrt(math.fsum(float(x) * float(x) for x in q))
                want = q / n * (1.0 if q[3] >= 0 else -1.0)
                gq = np.array(got[3:])
                if not np.all(np.abs(gq - want) <= 4 * EPS * np.maximum(np.abs(want), 2.0**-60) + 0.0) and not np.allclose(gq, want, rtol=4 * EPS, atol=1e-300):
                    return ctx.fail("number-mismatch", "edge #%d measurement quaternion %r is not +-q/|q| of %r" % (i, gq.tolist(), z[3:]))
                if not (gq[3] >= 0):
                    return ctx.fail("number-mismatch", "edge #%d measurement quaternion has w < 0 after import" % i)
            elif et in ("EDGE_SE2_XY", "EDGE_SE3_TRACKXYZ"):
                pk = "r2" if et == "EDGE_SE2_XY" else "r3"
                if type(e.estimate) is not gs.CLS[pk] or not _same_bits(gs.stored(e.estimate), z):
                    return ctx.fail("number-mismatch", "edge #%d measurement %r, file %r" % (i, gs.stored(e.estimate), z))
                if et == "EDGE_SE2_XY":
                    if type(e.offset) is not gs.PoseSE2 or not np.array_equal(np.asarray(e.offset), np.zeros(3)):
                        return ctx.fail("offset-mismatch", "EDGE_SE2_XY offset is %r, expected the identity" % (gs.stored(e.offset),))
                else:
                    if type(e.offset) is not gs.PoseSE3 or not _same_bits(gs.stored(e.offset), r["off"]):
                        return ctx.fail("offset-mismatch", "edge #%d offset %r, referenced parameter %r has %r" % (i, gs.stored(e.offset), r["needs"], r["off"]))
                    if e.offset_id != r["needs"]:
                        return ctx.fail("offset-mismatch", "edge #%d offset_id %r, file %r" % (i, e.offset_id, r["needs"]))
            elif et == "EDGE_VF_DIST":
                if not _same_bits([e.estimate], z):
                    return ctx.fail("number-mismatch", "custom edge #%d measurement %r, file %r" % (i, e.estimate, z))
            elif et == "EDGE_VF_TRI":
                if not _same_bits(e.estimate, z):
                    return ctx.fail("number-mismatch", "custom edge #%d measurement %r, file %r" % (i, e.estimate, z))

        # ---- warnings: exactly one per unrecognised non-blank line, carrying that line, in order
        msgs = [rec.getMessage() for rec in logs if rec.levelno >= logging.WARNING]
        msgs = [m for m in msgs if not _is_blank_warning(m)]
        if len(msgs) != len(exp_w):
            return ctx.fail("warnings", "%d warnings for %d unrecognised lines: %r vs %r" % (len(msgs), len(exp_w), msgs[:5], exp_w[:5]))
        for m, w in zip(msgs, exp_w):
            if w not in m:
                return ctx.fail("warnings", "warning %r does not carry the skipped line %r" % (m, w))

        # ---- metamorphic: junk / blank lines do not affect any other line
        base_bits = graph_bits(g)
        if has_junk or any(r["kind"] == "blank" for r in recs):
            path2 = os.path.join(tmp, "clean.g2o")
            with open(path2, "w", newline="") as f:
                f.write(GT.file_text(case, only_recognised=True))
            g2, logs2 = load_with_log(gs.Graph.from_g2o, path2, custom_edge_types=list(GT.CUSTOM_TYPES_WITH_PARTIAL_CLAIM))
            if graph_bits(g2) != base_bits:
                return ctx.fail("junk-affects-other-lines", "removing junk/blank lines changed the loaded graph")
            if [r for r in logs2 if r.levelno >= logging.WARNING]:
                return ctx.fail("warnings", "a file of recognised lines only produced warnings: %r" % [r.getMessage() for r in logs2][:3])

        # ---- a line is parsed the same way wherever it stands: move an EDGE_SE2 line the custom type declines / one it claims to
        #      the top of the file; every edge line must give an object of the same class in both files
        se2 = [r for r in exp_e if r["et"] == "EDGE_SE2"]
        claimed = [r for r in se2 if GT.claims_se2_line(r["ids"][0], r["ids"][1])]
        declined = [r for r in se2 if not GT.claims_se2_line(r["ids"][0], r["ids"][1])]
        if claimed and declined:
            ctx.event("order-independence:claimed-and-declined-EDGE_SE2-lines")
            classes = []
            for first in (declined[0], claimed[0]):
                order = [first] + [r for r in recs if r is not first]
                txt = "".join(r["text"] + "\n" for r in order)
                pth = os.path.join(tmp, "reordered.g2o")
                with open(pth, "w", newline="") as f:
                    f.write(txt)
                gq, _ = load_with_log(gs.Graph.from_g2o, pth, custom_edge_types=list(GT.CUSTOM_TYPES_WITH_PARTIAL_CLAIM))
                classes.append(sorted((tuple(e.vertex_ids), gs.bits(e.information), type(e).__name__) for e in gq._edges))
            if classes[0] != classes[1]:
                diff = [(a[0], a[2], b[2]) for a, b in zip(classes[0], classes[1]) if a != b][:3]
                return ctx.fail("parse-depends-on-line-order", "the class an edge line is loaded as changed when another EDGE_SE2 line was moved to the top of the file: %r" % (diff,))

        # ---- history: the loaded objects are independent of later loads - modify every loaded matrix / measurement in
        #      place (what a user re-weighting a loaded graph does), load the same file again, compare with the file
        for e in g._edges:
            np.asarray(e.information)[...] = np.asarray(e.information) * 0.01 - 1.0
            if isinstance(e.estimate, np.ndarray):
                np.asarray(e.estimate)[...] = np.asarray(e.estimate) * 0.5 + 2.0
            off = getattr(e, "offset", None)
            if isinstance(off, np.ndarray):
                # also the sensor offsets (the identity offset of an EDGE_SE2_XY edge included)
                np.asarray(off)[...] = np.asarray(off) * 0.5 + 0.25
        for v in g._vertices:
            np.asarray(v.pose)[...] = np.asarray(v.pose) * 0.5 + 2.0
        gr, _ = load_with_log(gs.Graph.from_g2o, path, custom_edge_types=list(GT.CUSTOM_TYPES_WITH_PARTIAL_CLAIM))
        if graph_bits(gr) != base_bits:
            return ctx.fail("reload-differs-after-in-place-edit", "modifying the first loaded graph in place changed what a second load of the same file returns")
        seen = {}
        for i, e in enumerate(gr._edges):
            key = id(e.information)
            if key in seen:
                return ctx.fail("loaded-objects-shared", "edges #%d and #%d share one information array" % (seen[key], i))
            seen[key] = i
        # EDGE_SE2_XY lines carry no parameter id: each such edge owns its (identity) offset; editing one leaves the others alone
        xy = [e for e in gr._edges if isinstance(e, gs.EdgeLandmark) and isinstance(e.offset, gs.PoseSE2)]
        if len(xy) >= 2:
            before_others = [gs.bits(e.offset) for e in xy[1:]]
            np.asarray(xy[0].offset)[...] = [0.25, -0.5, 0.125]
            if [gs.bits(e.offset) for e in xy[1:]] != before_others:
                return ctx.fail("loaded-objects-shared", "editing the offset of one loaded EDGE_SE2_XY edge in place changed the offset of another one")

        # ---- all loader entry points behave identically (the wrappers take no custom edge types)
        g0, logs0 = load_with_log(gs.Graph.from_g2o, path)
        b0 = graph_bits(g0)
        m0 = [rec.getMessage() for rec in logs0 if rec.levelno >= logging.WARNING]
        for name in ("load_g2o", "load_g2o_r2", "load_g2o_r3", "load_g2o_se2", "load_g2o_se3"):
            gi, logsi = load_with_log(getattr(gload, name), path)
            if type(gi) is not gs.Graph:
                return ctx.fail("loader-entry-points-differ", "%s returned %r" % (name, type(gi)))
            if graph_bits(gi) != b0:
                return ctx.fail("loader-entry-points-differ", "%s loads a different graph than Graph.from_g2o" % name)
            mi = [rec.getMessage() for rec in logsi if rec.levelno >= logging.WARNING]
            if mi != m0:
                return ctx.fail("loader-entry-points-differ", "%s emits different warnings than Graph.from_g2o" % name)
        if not any(r["kind"] == "edge" and (r["et"].startswith("EDGE_VF") or (r["et"] == "EDGE_SE2" and GT.claims_se2_line(r["ids"][0], r["ids"][1]))) for r in recs):
            if b0 != base_bits:
                return ctx.fail("loader-entry-points-differ", "custom_edge_types=[...] changes how a file without custom lines is loaded")
    finally:
        shutil.rmtree(tmp, ignore_errors=True)


def _is_nonrepr(tok):
    try:
        return repr(float(tok)) != tok
    except ValueError:
        return False


def _is_blank_warning(m):
    # a warning about a blank line would carry an empty payload between quotes; the current code emits none
    return m.rstrip().endswith("''") or m.strip() == ""
