"""C12 - the optimization report is faithful and the stopping rule is the documented one."""
import copy
import math

import numpy as np

from .. import graphcheck as GC, graphgen as GG, gs, refgraph as RG, refmodel as R, strategies as S

ID = "C12"
RULE = (
    "Histories: a generated graph (every family, custom edges included, inside the convergence neighbourhood or far outside it so that runs "
    "diverge, or with an unconstrained vertex so that the linear solve fails) and a sequence of 1..4 optimize() calls, each with its own tol in {0} u 10^[-12,-1], max_iter in 1..30, verbose flag and "
    "fix_first_pose. Model: a clone advanced by single steps optimize(tol=0,max_iter=1) gives the states x_0,x_1,...; the *reference* chi2 of each "
    "state gives chi_0,chi_1,...; the documented stopping rule is evaluated on them (comparisons within 1e-9 of their threshold are ambiguous: "
    "both outcomes accepted). Every call is also executed on a fresh graph rebuilt from the state before the call with the opposite verbose "
    "flag: reports and poses must be identical (no hidden state, printing does not alter results; this subsumes splitting a run into consecutive "
    "calls); the single steps are additionally replayed through graphs rebuilt from scratch before every iteration (nothing may be carried across iterations). Non-trivial = early stop at 1 < k < max_iter, stop exactly at max_iter with converged=True, a run whose chi2 increased at some "
    "iteration, or a history of >= 2 calls. Also: tol placed at 0.5x/2x/10x the relative chi2 change (decrease or increase) of an iteration of the run itself; vertex poses nudged in place between calls; the stopping decision must be exactly consistent with the reported chi2 values."
)
BUDGET = {"quick": 16 * 300, "thorough": 16 * 4000}
TOLERANCES = {
    "recorded chi2 vs reference chi2 of the corresponding state": "relative 1e-9 + 1e-12*|Omega|*(1+S)^2 (skipped when non-finite or > 1e100)",
    "stopping decisions": "ambiguous if |rel_diff - tol| <= 1e-9 or |chi_k - chi_{k-1}| <= 1e-9*chi or chi below 1e-18*(1+chi_0)",
    "fresh-graph / verbose clone": "bitwise identical poses, exactly equal report numbers (NaN-aware)",
}
ASSUMPTIONS = ["the single-step clone uses the code's own one-iteration update (validated against the reference by C03); the stopping model and chi2 values are independent"]

EPS = float(np.finfo(float).eps)


@S.composite
def strategy_(g):
    regime = g.choice(["near", "near", "near", "wild", "wild", "singular"])
    kw = dict(n_pose=(2, 7), n_lm=(0, 3), n_loops=(0, 3), conds=(1.0, 1e2))
    if regime in ("near", "singular"):
        kw.update(noise=(0.05, 0.05), pert=(0.3, 0.3))
    else:
        kw.update(noise=(0.5, 0.5), pert=(3.0, 3.0))
    case = GG.gen(g, **kw)
    if regime == "singular":
        # an unconstrained free vertex: the normal equations are exactly singular and the solve fails (non-finite update)
        k = g.choice([case["base"], R.POINT_OF[case["base"]]])
        p = g.pose(k, s=1.0)
        nid = max(v["id"] for v in case["verts"]) + 1
        case["verts"].insert(g.rnd.randint(1, len(case["verts"])), {"id": nid, "p": p, "fixed": False, "truth": list(p["v"]), "role": "isolated"})
    ncalls = g.choice([1, 1, 2, 2, 3, 4])
    calls = []
    for _ in range(ncalls):
        tolc = g.choice(["zero", "tiny", "mid", "loose"])
        tol = {"zero": 0.0, "tiny": 10.0 ** g.rnd.uniform(-12, -8), "mid": 10.0 ** g.rnd.uniform(-8, -3), "loose": 10.0 ** g.rnd.uniform(-3, -1)}[tolc]
        calls.append({"tol": tol, "max_iter": g.choice([1, 1, 2, 3, 4, 5, 8, 12, 20, 30]), "verbose": g.boolean(), "fix_first": g.boolean()})
        # a tolerance placed just above / below the relative chi2 change (decrease OR increase) of one iteration of this very run
        calls[-1]["tol_adaptive"] = {"k": g.rnd.randrange(10**6), "factor": g.choice([0.5, 2.0, 2.0, 10.0])} if g.choice([False, False, True]) else None
        # tol may arrive as a numpy scalar of another width (np.float32(1e-4)): the rule is about its value
        calls[-1]["tol_type"] = g.choice([None, None, None, "float32", "float32", "float16", "float64"])
        # between two calls the user may nudge vertex poses IN PLACE (the pose is an ndarray; no new object is assigned)
        calls[-1]["nudge"] = [[g.rnd.randrange(10**6), g.rnd.randrange(10**6), g.rnd.uniform(-0.3, 0.3)] for _ in range(g.rnd.randint(1, 2))] if (calls[:-1] and g.choice([False, False, True])) else []
    calls[0]["fix_first"] = case["fix_first"]
    case["calls"] = calls
    case["debug_log"] = g.choice([False, False, False, True])
    case["regime"] = regime
    return case


def strategy(tier):
    return strategy_()


def summarise(case):
    s = GG.summarise(case)
    s["calls"] = case["calls"]
    s["regime"] = case["regime"]
    return s


def rebuild(case, graph):
    """A fresh graph with bit-identical state (poses, flags) to `graph`."""
    g = GG.build(case)
    for v_new, v_old in zip(g._vertices, graph._vertices):
        v_new.pose = gs.mk_pose_exact(gs.kind_of(v_old.pose), np.asarray(v_old.pose))
        v_new.fixed = bool(v_old.fixed)
    return g


def state_bits(graph):
    return b"".join(gs.bits(v.pose) for v in graph._vertices), tuple(bool(v.fixed) for v in graph._vertices)


def _num_eq(a, b):
    if a is None or b is None:
        return a is None and b is None
    a, b = float(a), float(b)
    return a == b or (a != a and b != b)


def report_tuple(ret):
    return (
        bool(ret.converged),
        ret.num_iterations,
        ret.initial_chi2,
        ret.final_chi2,
        [(it.chi2, it.rel_diff, it.is_complete_iteration()) for it in ret.iteration_results],
    )


def reports_equal(ra, rb):
    ta, tb = report_tuple(ra), report_tuple(rb)
    if ta[0] != tb[0] or ta[1] != tb[1] or not _num_eq(ta[2], tb[2]) or not _num_eq(ta[3], tb[3]) or len(ta[4]) != len(tb[4]):
        return False
    for (c1, r1, k1), (c2, r2, k2) in zip(ta[4], tb[4]):
        if k1 != k2 or not _num_eq(c1, c2) or not _num_eq(r1, r2):
            return False
    return True


def decide(chis, k, tol, chi0, floor=0.0):
    """Model stopping decision at index k (documented rule): True / False / None (ambiguous).
    The reference chi2 values agree with the code's only up to noise = 1e-9*chi2 + floor; a decision is ambiguous when
    the comparison it rests on lies within 10x that noise."""
    a, b = chis[k - 1], chis[k]
    if tol <= 0.0:
        return False  # (chi_k <= chi_{k-1}) and (rel_diff < 0) cannot both hold
    if not (math.isfinite(a) and math.isfinite(b)) or abs(a) > 1e100 or abs(b) > 1e100:
        return None
    if a < 1e-18 * (1 + chi0) or b < 1e-18 * (1 + chi0):
        return None
    noise = 1e-9 * max(abs(a), abs(b)) + floor
    rel = (a - b) / (a + EPS)
    if abs(a - b) <= 10.0 * noise:
        return None  # chi_k <= chi_{k-1} decided by rounding
    if abs(rel - tol) <= 1e-9 * max(1.0, abs(tol)) + 10.0 * noise / abs(a):
        return None
    return (b <= a) and (rel < tol)


def check(case, ctx):
    if case.get("debug_log"):
        ctx.event("library-loggers-at-DEBUG")
        with GC.debug_logging():
            return _check(case, ctx)
    return _check(case, ctx)


def _check(case, ctx):
    GG.classify(case, ctx)
    ctx.event("regime:" + case["regime"])
    S0 = GG.S_of(case)
    maxinfo = max(float(np.abs(np.array(e["info"])).max()) for e in case["edges"])
    G = GG.build(case)
    nontriv = len(case["calls"]) >= 2
    for ci, call in enumerate(case["calls"]):
        tol, max_iter, verbose, ff = call["tol"], call["max_iter"], call["verbose"], call["fix_first"]
        for vi, comp, dlt in call.get("nudge", []):
            v = G._vertices[vi % len(G._vertices)]
            arr = np.asarray(v.pose)
            if np.all(np.isfinite(arr)):
                arr[comp % R.PDIM[gs.kind_of(v.pose)]] += dlt
                ctx.event("vertex-nudged-in-place-between-calls")
        F = rebuild(case, G)
        M = rebuild(case, G)
        if state_bits(F) != state_bits(G):
            raise RuntimeError("harness: rebuild is not bit-exact")
        # ---- model: single steps
        if ff:
            M._vertices[0].fixed = True
        chis = [RG.chi2(M)]
        states = [state_bits(M)[0]]
        code_chis = []  # the library's own chi2 of every state (initial_chi2 of each single step)
        for _ in range(max_iter):
            rM, _o = GC.optimize_quiet(M, tol=0.0, max_iter=1, fix_first_pose=False, verbose=False)
            code_chis.append(float(rM.initial_chi2) if rM.initial_chi2 is not None else float("nan"))
            chis.append(RG.chi2(M))
            states.append(state_bits(M)[0])
        code_chis.append(float(M.calc_chi2()))
        ta = call.get("tol_adaptive")
        if ta:
            rels = [(chis[j] - chis[j + 1]) / (chis[j] + EPS) for j in range(len(chis) - 1) if math.isfinite(chis[j]) and math.isfinite(chis[j + 1]) and chis[j] > 0]
            rels = [r for r in rels if r != 0.0 and math.isfinite(r)]
            if rels:
                r = rels[ta["k"] % len(rels)]
                tol = min(0.5, abs(r) * ta["factor"])
                ctx.event("tol-adaptive:%s-of-a-%s" % ("above" if ta["factor"] > 1 else "below", "decrease" if r > 0 else "increase"))
        tol_obj = tol
        tt = call.get("tol_type")
        if tt:
            npt = {"float32": np.float32, "float16": np.float16, "float64": np.float64}[tt]
            tol_obj = npt(tol)
            if tt == "float32" and ta and len(code_chis) >= 2:
                # the narrow tol sits immediately above the relative decrease of one iteration of this very run (so close that the
                # decrease would round UP to tol in single precision): by the documented rule the run stops there
                cand = [(code_chis[j] - code_chis[j + 1]) / (code_chis[j] + EPS) for j in range(len(code_chis) - 1) if math.isfinite(code_chis[j]) and math.isfinite(code_chis[j + 1]) and code_chis[j] > 0]
                cand = [r for r in cand if 1e-30 < r < 0.5]
                if cand:
                    r = cand[ta["k"] % len(cand)]
                    t32 = np.float32(r)
                    if float(t32) <= r:
                        t32 = np.nextafter(t32, np.float32(np.inf))
                    tol_obj = t32
                    ctx.event("tol:float32-immediately-above-a-decrease")
            tol = float(tol_obj)
            ctx.event("tol-type:" + tt)
        # ---- second model: every single iteration is executed on a graph rebuilt from scratch (fresh edge, vertex and
        #      graph objects), so nothing can be carried over from one iteration to the next; it must agree with the
        #      single-step clone, which keeps its objects
        Fk = rebuild(case, G)
        if ff:
            Fk._vertices[0].fixed = True
        fresh_states = [state_bits(Fk)[0]]
        for _ in range(min(max_iter, 6)):
            GC.optimize_quiet(Fk, tol=0.0, max_iter=1, fix_first_pose=False, verbose=False)
            fresh_states.append(state_bits(Fk)[0])
            Fk = rebuild(case, Fk)
        for j, (sa, sb) in enumerate(zip(states, fresh_states)):
            if sa != sb:
                return ctx.fail("state-carried-across-iterations", "call %d: after %d single iterations the long-lived clone and a chain of freshly rebuilt graphs disagree" % (ci, j))
        # ---- the call under test, and the same call on a fresh graph with the opposite verbose flag
        ret, out = GC.optimize_quiet(G, tol=tol_obj, max_iter=max_iter, fix_first_pose=ff, verbose=verbose)
        ret2, out2 = GC.optimize_quiet(F, tol=tol_obj, max_iter=max_iter, fix_first_pose=ff, verbose=not verbose)
        if (out != "") != bool(verbose) or (out2 != "") != (not verbose):
            return ctx.fail("verbose-output", "call %d: verbose=%r printed %d chars; verbose=%r printed %d chars" % (ci, verbose, len(out), not verbose, len(out2)))
        if state_bits(G) != state_bits(F):
            return ctx.fail("hidden-state-or-verbose-changes-result", "call %d (tol=%g,max_iter=%d): poses/flags differ between the long-lived graph (verbose=%r) and a fresh graph rebuilt from the same state (verbose=%r)" % (ci, tol, max_iter, verbose, not verbose))
        if not reports_equal(ret, ret2):
            return ctx.fail("hidden-state-or-verbose-changes-report", "call %d: reports differ: %r vs %r" % (ci, report_tuple(ret)[:4], report_tuple(ret2)[:4]))

        # ---- bookkeeping
        K = ret.num_iterations
        if not isinstance(K, (int, np.integer)) or not (1 <= K <= max_iter):
            return ctx.fail("num-iterations", "call %d: num_iterations=%r with max_iter=%d" % (ci, K, max_iter))
        n_complete = sum(1 for it in ret.iteration_results if it.is_complete_iteration())
        L = len(ret.iteration_results)
        if n_complete != K:
            return ctx.fail("iteration-bookkeeping", "call %d: %d complete iterations recorded but num_iterations=%d" % (ci, n_complete, K))
        if L not in (K, K + 1) or (L == K + 1 and ret.iteration_results[-1].is_complete_iteration()):
            return ctx.fail("iteration-bookkeeping", "call %d: len(iteration_results)=%d, num_iterations=%d" % (ci, L, K))
        if any(not it.is_complete_iteration() for it in ret.iteration_results[:K]):
            return ctx.fail("iteration-bookkeeping", "call %d: an incomplete iteration precedes a complete one" % ci)
        if K < max_iter and not ret.converged:
            return ctx.fail("stopping-rule", "call %d: stopped after %d < max_iter=%d iterations but converged=False" % (ci, K, max_iter))
        if K < max_iter and L != K + 1:
            return ctx.fail("iteration-bookkeeping", "call %d: early stop must record the extra incomplete iteration (len=%d, K=%d)" % (ci, L, K))
        if K == max_iter and L != K:
            # (an early stop can only be detected at the start of an iteration i < max_iter)
            return ctx.fail("iteration-bookkeeping", "call %d: run of max_iter=%d iterations recorded %d entries" % (ci, max_iter, L))

        # ---- returned state is x_K
        if state_bits(G)[0] != states[K]:
            # allow rounding-level differences (the property does not demand bitwise equality with single stepping)
            Mk = rebuild(case, G)
            ok = True
            arr_g = np.concatenate([np.asarray(v.pose, dtype=float) for v in G._vertices])
            arr_m = np.frombuffer(states[K], dtype=np.float64)
            if arr_g.shape != arr_m.shape or not np.allclose(arr_g, arr_m, rtol=1e-9, atol=1e-9 * (1 + S0), equal_nan=True):
                ok = False
            if not ok:
                return ctx.fail("returned-state", "call %d: returned poses are not the state after %d single Gauss-Newton steps" % (ci, K))
            ctx.event("state-equal-up-to-rounding")

        # ---- recorded chi2 values equal the reference chi2 of the corresponding states
        def chi_ok(rec, ref):
            if rec is None:
                return False
            rec = float(rec)
            if not (math.isfinite(rec) and math.isfinite(ref)) or abs(ref) > 1e100:
                return True  # diverged: judged structurally only
            Sx = S0
            return abs(rec - ref) <= 1e-9 * max(abs(rec), abs(ref)) + 1e-12 * maxinfo * (1 + Sx) ** 2 + 1e-9 * abs(ref) * 0

        if not chi_ok(ret.initial_chi2, chis[0]):
            return ctx.fail("initial-chi2", "call %d: initial_chi2=%r reference=%r" % (ci, ret.initial_chi2, chis[0]))
        for j in range(K):
            if not chi_ok(ret.iteration_results[j].chi2, chis[j + 1]):
                return ctx.fail("iteration-chi2", "call %d: iteration %d records chi2=%r, reference chi2 of the state after it=%r" % (ci, j + 1, ret.iteration_results[j].chi2, chis[j + 1]))
        if not chi_ok(ret.final_chi2, chis[K]):
            return ctx.fail("final-chi2", "call %d: final_chi2=%r reference chi2 of returned state=%r" % (ci, ret.final_chi2, chis[K]))
        c_now = G.calc_chi2()
        if not _num_eq(c_now, ret.final_chi2) and not chi_ok(ret.final_chi2, float(c_now)):
            return ctx.fail("final-chi2", "call %d: final_chi2=%r but calc_chi2() of the returned graph=%r" % (ci, ret.final_chi2, c_now))
        # recorded rel_diff is the relative change of the recorded chi2 values
        prev = float(ret.initial_chi2)
        for j in range(K):
            it = ret.iteration_results[j]
            cur = float(it.chi2)
            want = -(prev - cur) / (prev + EPS)
            if it.rel_diff is None or not (_num_eq(it.rel_diff, want) or abs(float(it.rel_diff) - want) <= 1e-9 * (1 + abs(want))):
                return ctx.fail("iteration-rel-diff", "call %d: iteration %d rel_diff=%r, expected %r" % (ci, j + 1, it.rel_diff, want))
            prev = cur

        # ---- the stopping decision is consistent with the run's OWN reported chi2 values (exact arithmetic on the recorded numbers,
        #      so this also decides runs whose chi2 has collapsed to rounding level, where the reference cannot)
        rec = [float(ret.initial_chi2)] + [float(ret.iteration_results[j].chi2) for j in range(K)]
        if all(math.isfinite(x) for x in rec):
            def rule(j):
                a_, b_ = rec[j - 1], rec[j]
                rel_ = (a_ - b_) / (a_ + EPS)
                if abs(rel_ - tol) <= 1e-9 * max(abs(tol), abs(rel_)) or abs(a_ - b_) <= 4 * EPS * max(abs(a_), abs(b_)):
                    return None
                return (b_ <= a_) and (rel_ < tol)

            for j in range(1, K):
                if rule(j) is True:
                    return ctx.fail("stopping-rule", "call %d: by the reported chi2 values the documented rule holds at iteration %d (chi2 %r -> %r, tol=%g) but the run continued to %d" % (ci, j, rec[j - 1], rec[j], tol, K))
            rK = rule(K)
            if K < max_iter and rK is False:
                return ctx.fail("stopping-rule", "call %d: stopped at iteration %d although by the reported chi2 values the documented rule does not hold (chi2 %r -> %r, tol=%g)" % (ci, K, rec[K - 1], rec[K], tol))
            if K == max_iter and rK is not None and bool(ret.converged) != rK:
                return ctx.fail("converged-flag", "call %d: converged=%r at max_iter=%d but the reported chi2 values %r -> %r with tol=%g give %r" % (ci, ret.converged, max_iter, rec[K - 1], rec[K], tol, rK))

        # ---- stopping rule (non-deterministic validation: ambiguous decisions accept both outcomes)
        for k in range(1, K):
            d = decide(chis, k, tol, chis[0], 1e-12 * maxinfo * (1 + S0) ** 2)
            if d is True:
                return ctx.fail("stopping-rule", "call %d: the documented rule stops at iteration %d (chi2 %r -> %r, tol=%g) but the run continued to %d" % (ci, k, chis[k - 1], chis[k], tol, K))
            if d is None:
                ctx.event("ambiguous-decision")
        dK = decide(chis, K, tol, chis[0], 1e-12 * maxinfo * (1 + S0) ** 2)
        if dK is None:
            ctx.event("ambiguous-decision")
        if K < max_iter:
            if dK is False:
                return ctx.fail("stopping-rule", "call %d: stopped at iteration %d where the documented rule does not hold (chi2 %r -> %r, tol=%g)" % (ci, K, chis[K - 1], chis[K], tol))
        else:
            if dK is not None and bool(ret.converged) != dK:
                return ctx.fail("converged-flag", "call %d: converged=%r at max_iter=%d but the documented rule gives %r (chi2 %r -> %r, tol=%g)" % (ci, ret.converged, max_iter, dK, chis[K - 1], chis[K], tol))
        if 1 < K < max_iter:
            nontriv = True
            ctx.event("early-stop")
        if K == max_iter and ret.converged:
            nontriv = True
            ctx.event("converged-at-max-iter")
        if any(math.isfinite(chis[j + 1]) and math.isfinite(chis[j]) and chis[j + 1] > chis[j] * (1 + 1e-9) for j in range(K)):
            nontriv = True
            ctx.event("chi2-increased-in-run")
        if not all(math.isfinite(c) for c in chis[: K + 1]):
            ctx.event("diverged-nonfinite")
        # flags
        want_flags = [bool(v["fixed"]) for v in case["verts"]]
        for c in case["calls"][: ci + 1]:
            if c["fix_first"]:
                want_flags[0] = True
        if [bool(v.fixed) for v in G._vertices] != want_flags:
            return ctx.fail("fixed-flags", "call %d: flags %r expected %r" % (ci, [bool(v.fixed) for v in G._vertices], want_flags))
    ctx.nontrivial(nontriv)
