"""C06 - fixed vertices never move and free vertices solve the reduced problem."""
import copy

import numpy as np

from .. import graphcheck as GC, graphgen as GG, gs, refgraph as RG, refmodel as R, strategies as S
from . import c04

ID = "C06"
RULE = (
    "Graph cases of every family with a drawn fixed-subset mode: wellposed (one anchor) / extra-fixed (several) / all-fixed / "
    "isolated-fixed (fixed vertices with no incident edge appended) / refix-history (fixed flags changed between optimize() calls on the same Graph object) / shared-pose-object (a fixed and a free vertex initialised from one pose object) / vertices-in-second-graph (the Vertex objects are also listed, in another order, by a second Graph) / isolated-free (an unconstrained free vertex => exactly singular system, next to fixed vertices) / only-landmarks-fixed / no-fixed (singular normal equations) / diverging "
    "(perturbation up to 3, 3 rad); 1..20 iterations; fix_first_pose in {T,F}. Oracles: (1) every vertex fixed at solve time is unchanged and "
    "finite in every outcome, incl. singular solves; (2) fixed flags: fix_first_pose=True sets exactly vertices[0].fixed, False changes none; "
    "(3) reduced problem: closed-form WLS with fixed coordinates as constants for R^n graphs, the dense reference Gauss-Newton step on the "
    "reduced system for SE(n); (4) marking more vertices fixed / appending isolated fixed vertices keeps the problem solvable (finite, (3) again). "
    "Non-trivial = a fixed vertex that is not the first listed, or a fault case (no-fixed, isolated-free, only-landmarks-fixed, diverging)."
)
BUDGET = {"quick": 16 * 800, "thorough": 16 * 8000}
TOLERANCES = {
    "fixed vertices": "translation and quaternion bitwise; SE2 angle within 4 ulp(pi) per iteration (angle re-wrap)",
    "reduced problem": "as C03 (one step) / C04 (closed form)",
}
ASSUMPTIONS = ["reference model trusted after self-test", "singular solves: scipy may return NaN or garbage for the free unknowns; only fixed vertices and flags are judged there"]

MODES = ["fixed-nonunit-quaternions", "wellposed", "extra-fixed", "extra-fixed", "refix-history", "refix-history", "shared-pose-object", "vertices-in-second-graph", "all-fixed", "isolated-fixed", "isolated-fixed", "isolated-free", "only-landmarks-fixed", "no-fixed", "diverging"]


@S.composite
def strategy_(g):
    mode = g.choice(MODES)
    kw = dict(n_pose=(2, 7), n_lm=(0, 3), n_loops=(0, 3), conds=(1.0, 1e2), noise=(0.05, 0.05), pert=(0.3, 0.3))
    if mode == "diverging":
        kw["pert"] = (3.0, 3.0)
        kw["bases"] = ("se2", "se3")
    if mode == "only-landmarks-fixed":
        kw["n_lm"] = (1, 3)
    if mode == "fixed-nonunit-quaternions":
        kw["bases"] = ("se3",)
    case = GG.gen(g, **kw)
    rnd = g.rnd
    verts = case["verts"]
    if mode == "fixed-nonunit-quaternions":
        # fixed SE(3) vertices whose quaternions are unit only to the precision of a hand-written file (2..6 decimals) or scaled a
        # little: a fixed pose is kept exactly as given, whatever its norm (only (1) and (2) are judged in this mode)
        for _ in range(rnd.randint(0, 2)):
            rnd.choice(verts)["fixed"] = True
        for i, v in enumerate(verts):
            if v["p"]["k"] == "se3" and (v["fixed"] or (case["fix_first"] and i == 0)):
                q = v["p"]["v"][3:]
                if rnd.random() < 0.6:
                    q2 = [round(x, rnd.choice([2, 3, 4, 5, 6])) for x in q]
                    q = q2 if any(q2) else q
                else:
                    f = 1.0 + rnd.choice([1.0, -1.0]) * 10.0 ** rnd.uniform(-7, -2)
                    q = [x * f for x in q]
                v["p"]["v"][3:] = q
    if mode == "extra-fixed":
        for _ in range(rnd.randint(1, 3)):
            rnd.choice(verts)["fixed"] = True
    elif mode == "all-fixed":
        for v in verts:
            v["fixed"] = True
    elif mode == "only-landmarks-fixed":
        for v in verts:
            v["fixed"] = v["role"] == "lm"
        case["fix_first"] = False
    elif mode == "no-fixed":
        for v in verts:
            v["fixed"] = False
        case["fix_first"] = False
    elif mode in ("isolated-fixed", "isolated-free"):
        used = set(v["id"] for v in verts)
        if mode == "isolated-free":
            for _ in range(rnd.randint(0, 2)):
                rnd.choice(verts)["fixed"] = True
        for _ in range(rnd.randint(1, 2)):
            k = rnd.choice(["r2", "r3", "se2", "se3"]) if rnd.random() < 0.3 else rnd.choice([case["base"], R.POINT_OF[case["base"]]])
            p = g.pose(k, s=10.0)
            nid = max(used) + rnd.randint(1, 5) if rnd.random() < 0.7 else min(used) - rnd.randint(1, 5)
            used.add(nid)
            pos = rnd.randint(1, len(verts))
            verts.insert(pos, {"id": nid, "p": p, "fixed": mode == "isolated-fixed", "truth": list(p["v"]), "role": "isolated"})
    if mode == "shared-pose-object":
        # a fixed vertex and a free vertex of the same type start from ONE pose object (e.g. both initialised from the
        # same `origin` object): the update of the free vertex must not reach the fixed one
        ffv = [i for i, v in enumerate(verts) if v["fixed"] or (case["fix_first"] and i == 0)]
        pairs = [(i, f) for f in ffv for i, v in enumerate(verts) if i not in ffv and v["p"]["k"] == verts[f]["p"]["k"]]
        case["alias"] = []
        if pairs:
            i, f = rnd.choice(pairs)
            verts[i]["p"] = dict(verts[f]["p"])
            case["alias"] = [[i, f]]
    if mode == "refix-history":
        # flags changed between optimize() calls on the same Graph object: [(vertex index, new flag), ...] per stage
        stages = []
        for _ in range(rnd.randint(1, 3)):
            stages.append({"changes": [[rnd.randrange(len(verts)), rnd.random() < 0.75] for _ in range(rnd.randint(1, 2))], "ff": rnd.random() < 0.4, "k": rnd.choice([1, 1, 2, 3])})
        case["stages"] = stages
    if mode in ("no-fixed", "only-landmarks-fixed", "diverging", "isolated-free", "all-fixed") and g.boolean():
        # fault cases also with custom edges that rely on the library's numerical differentiation (which perturbs and restores
        # vertex poses - also those of fixed vertices - around error evaluations that may be non-finite by then)
        for e in case["edges"]:
            if e["t"] not in ("odo", "lm"):
                e["fl"] = "num"
                case["meta"]["numeric_custom_edges"] = True
    # queries made on the graph before the run (export to a file, chi2, comparison with itself) must not change which vertex is
    # "the first listed" nor which ones are fixed
    case["queries_first"] = g.choice([False, False, True])
    case["mode"] = mode
    case["iters"] = g.choice([1, 1, 2, 3, 5, 10, 20])
    case["tol"] = g.choice([0.0, 0.0, 1e-6])
    return case


def strategy(tier):
    return strategy_()


def summarise(case):
    s = GG.summarise(case)
    s["mode"] = case["mode"]
    s["iters"] = case["iters"]
    return s


def _fixed_unchanged(ctx, g, before, fixed, iters, what):
    for i, v in enumerate(g._vertices):
        if not fixed[i]:
            continue
        k = gs.kind_of(v.pose)
        now = gs.stored(v.pose)
        if not all(x == x and abs(x) != float("inf") for x in now):
            return ctx.fail("fixed-vertex-nonfinite", "fixed vertex #%d (id %r) became %r (%s)" % (i, v.id, now, what))
        dt, dr = GC.pose_diff(k, before[i], now)
        lim = 4 * 4.5e-16 * iters if k == "se2" else 0.0
        if dt != 0.0 or dr > lim:
            return ctx.fail("fixed-vertex-moved", "fixed vertex #%d (id %r) moved by (%.3e, %.3e) (%s)" % (i, v.id, dt, dr, what))
    return False


def _check_refix_history(case, ctx, S_):
    """optimize -> change fixed flags -> optimize again on the SAME Graph object: at every stage the fixed vertices stay
    put and the step taken is the Gauss-Newton step of the system reduced to the *currently* free vertices."""
    ctx.nontrivial(True)
    g = GG.build(case)
    ff = case["fix_first"]
    before = RG.poses_snapshot(g)
    fixed = GC.expected_fixed(case, ff)
    GC.optimize_quiet(g, tol=0.0, max_iter=min(case["iters"], 3), fix_first_pose=ff, verbose=False)
    if _fixed_unchanged(ctx, g, before, fixed, 3, "refix-history stage 0"):
        return
    for si, st in enumerate(case["stages"]):
        if not GC.all_finite(g):
            ctx.event("refix:nonfinite-skipped")
            return
        for idx, flag in st["changes"]:
            g._vertices[idx % len(g._vertices)].fixed = bool(flag)
        flags = [bool(v.fixed) for v in g._vertices]
        if st["ff"]:
            flags[0] = True
        # keep the stage well-posed: some pose of the base type must be fixed
        if not any(f and vd["role"] == "pose" for f, vd in zip(flags, case["verts"])):
            ctx.event("refix:stage-not-anchored-skipped")
            return
        ctx.event("refix:stage")
        snap = RG.poses_snapshot(g)
        if st["k"] == 1:
            if GC.gn_step_oracle(ctx, case, g, st["ff"], S_, check_report=True, fixed=flags):
                return
        else:
            GC.optimize_quiet(g, tol=0.0, max_iter=st["k"], fix_first_pose=st["ff"], verbose=False)
            if [bool(v.fixed) for v in g._vertices] != flags:
                return ctx.fail("fixed-flags", "stage %d: flags %r expected %r" % (si + 1, [bool(v.fixed) for v in g._vertices], flags))
        if _fixed_unchanged(ctx, g, snap, flags, st["k"], "refix-history stage %d" % (si + 1)):
            return


def check(case, ctx):
    GG.classify(case, ctx)
    mode = case["mode"]
    ctx.event("mode:" + mode)
    if case["meta"].get("numeric_custom_edges"):
        ctx.event("fault-case-with-numerically-differentiated-custom-edges")
    ff = case["fix_first"]
    fixed = GC.expected_fixed(case, ff)
    fault = mode in ("no-fixed", "only-landmarks-fixed", "diverging", "isolated-free", "fixed-nonunit-quaternions") or (mode == "shared-pose-object" and case["base"] in ("se2", "se3"))
    if mode == "only-landmarks-fixed" and case["base"] in ("r2", "r3"):
        fault = False  # a fixed point anchors the translation gauge of a linear graph
    ctx.nontrivial(any(f for f in fixed[1:]) or fault)
    S_ = GG.S_of(case)
    iters = case["iters"]

    if mode == "refix-history":
        return _check_refix_history(case, ctx, S_)

    if mode == "vertices-in-second-graph":
        # the same Vertex objects are put into a second Graph that lists them in another order (its constructor assigns
        # its own bookkeeping to them); the first graph must still take exact Gauss-Newton steps and keep fixed vertices
        g = GG.build(case)
        others = [GG.build_edge(e) for e in case["edges"]]
        order = list(range(len(g._vertices)))
        order = order[1:] + order[:1] if case["iters"] % 2 else order[::-1]
        gs.Graph(others, [g._vertices[i] for i in order])
        ctx.event("vertices-renumbered-by-a-second-graph")
        if GC.gn_step_oracle(ctx, case, g, ff, S_, check_report=True):
            return
        return

    # ---- the run under test: k iterations
    g = GG.build(case)
    for i, f in case.get("alias", []):
        g._vertices[i].pose = g._vertices[f].pose
        ctx.event("fixed-and-free-vertex-share-one-pose-object")
    if case.get("queries_first"):
        ctx.event("queries-before-the-run:export,chi2,equals")
        listed = list(g._vertices)
        import os
        import tempfile

        fd, path = tempfile.mkstemp(prefix="vf_c06_", suffix=".g2o")
        os.close(fd)
        try:
            try:
                g.to_g2o(path)
            except (NotImplementedError, ValueError):
                ctx.event("queries-before-the-run:export-refused")
            g.calc_chi2()
            g.equals(g)
        finally:
            os.unlink(path)
        if len(g._vertices) != len(listed) or any(a is not b for a, b in zip(g._vertices, listed)):
            return ctx.fail("vertex-list-reordered-by-a-query", "the graph's vertex list changed order during to_g2o / calc_chi2 / equals (fix_first_pose refers to the first listed vertex)")
    flags_before = [bool(v.fixed) for v in g._vertices]
    before = RG.poses_snapshot(g)
    ret, _ = GC.optimize_quiet(g, tol=case["tol"], max_iter=iters, fix_first_pose=ff, verbose=False)
    # (2) flags
    flags_after = [bool(v.fixed) for v in g._vertices]
    want = list(flags_before)
    if ff:
        want[0] = True
    if flags_after != want:
        return ctx.fail("fixed-flags", "flags before %r, after %r, fix_first_pose=%r" % (flags_before, flags_after, ff))
    # (1) fixed vertices unchanged in every outcome
    if _fixed_unchanged(ctx, g, before, fixed, iters, "mode %s, %d iterations" % (mode, iters)):
        return
    finite = GC.all_finite(g)
    if not finite:
        ctx.event("outcome:nonfinite-free-vertices")
    elif ret.converged:
        ctx.event("outcome:converged")
    else:
        ctx.event("outcome:not-converged")
    if fault:
        return

    # ---- well-posed modes: the run must stay finite and solve the reduced problem
    if not finite:
        return ctx.fail("wellposed-run-nonfinite", "poses not finite after optimizing a well-posed graph (mode %s)" % mode)
    linear = case["base"] in ("r2", "r3") and all(e["t"] in ("odo", "lm") for e in case["edges"]) and all(v["p"]["k"] in ("r2", "r3") and R.PDIM[v["p"]["k"]] == R.PDIM[case["base"]] for v in case["verts"])
    if linear:
        xs, chi_star, cond = c04.closed_form(case, fixed)
        if xs is not None:
            xinf = max([1.0] + [abs(t) for x in xs for t in x])
            tol = 1e-7 * (1 + xinf) * max(1.0, cond * cond * 1e-6)
            for i, (v, x) in enumerate(zip(g._vertices, xs)):
                dlt = float(np.abs(np.array(gs.stored(v.pose)) - np.array(x)).max())
                if not (dlt <= tol):
                    return ctx.fail("not-the-reduced-optimum", "vertex #%d (id %r) is %.3e from the reduced closed-form optimum (mode %s)" % (i, v.id, dlt, mode))
            ctx.event("reduced:closed-form")
    # one-step oracle on the reduced system (fresh graph)
    g1 = GG.build(case)
    if not GC.gn_step_oracle(ctx, case, g1, ff, S_, check_report=False):
        ctx.event("reduced:gn-step")

    # (4) monotonicity: fix more vertices and append an isolated fixed vertex -> still solvable, still the reduced solution
    case2 = copy.deepcopy(case)
    n = len(case2["verts"])
    extra = [i for i in range(n) if not fixed[i]]
    if extra:
        h = sum(int(abs(v["id"])) % 7 for v in case2["verts"])
        case2["verts"][extra[h % len(extra)]]["fixed"] = True
    newid = max(v["id"] for v in case2["verts"]) + 1
    k = case2["verts"][-1]["p"]["k"]
    case2["verts"].append({"id": newid, "p": {"k": k, "v": list(R.identity(k))}, "fixed": True, "truth": list(R.identity(k)), "role": "isolated"})
    g2 = GG.build(case2)
    fixed2 = GC.expected_fixed(case2, ff)
    before2 = RG.poses_snapshot(g2)
    GC.optimize_quiet(g2, tol=0.0, max_iter=min(iters, 3), fix_first_pose=ff, verbose=False)
    if _fixed_unchanged(ctx, g2, before2, fixed2, min(iters, 3), "after fixing one more vertex and appending an isolated fixed vertex"):
        return
    if not GC.all_finite(g2):
        return ctx.fail("more-fixed-made-unsolvable", "fixing one more vertex / appending an isolated fixed vertex made a well-posed problem produce non-finite poses")
    g3 = GG.build(case2)
    if not GC.gn_step_oracle(ctx, case2, g3, ff, S_, check_report=False):
        ctx.event("monotonic:gn-step")
