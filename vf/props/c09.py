"""C09 - pose composition is the rigid-motion group."""
import math

import numpy as np
from hypothesis import strategies as st

from .. import gs, refmodel as R, strategies as S

ID = "C09"
RULE = (
    "Hypothesis draws a pose type and 3 poses, a point and a boxplus increment (|rot| <= 1, boundary included) from value "
    "strategies covering all signs, w<0, w=0, 180-degree rotations, angles on both sides of +-pi and translations up to 1e6; "
    "each law is compared with an independent Hamilton-product / homogeneous-matrix model. Non-trivial = at least one operand "
    "has a component outside the repository suite's sampling box [0,1)^k; distinct = hash of the drawn case. History per case: results held across later calls, "
    "and every operation repeated after the operand was edited in place (a unit quaternion written by slice assignment with no other call; a non-unit one followed by normalize())."
)
BUDGET = {"quick": 16 * 5000, "thorough": 16 * 100000}
TOLERANCES = {
    "translation": "1e-11*(1+S)*nfactors, S = max |translation| among operands (and S^2-free: compositions are linear in S)",
    "rotation": "1e-12 (quaternion up to global sign; SE(2) angle modulo 2*pi)",
    "boxplus_qw": "1e-12 + min(1e-6, 1e-13/qw) (conditioning of sqrt(1-|v|^2) near the unit radius)",
}
ASSUMPTIONS = [
    "numpy float64 arithmetic; the reference model (vf/refmodel.py) is trusted after its self-test",
    "unit quaternions are unit to ~1 ulp (generator normalises in extended precision)",
]

EPS = 2.0**-52


@S.composite
def strategy_(g):
    k = g.kind()
    s = g.scale()
    a = g.pose(k, s=s)
    b = g.pose(k, s=g.choice([s, 1.0]))
    c = g.pose(k, s=g.choice([s, 1.0]))
    pt = g.pose(R.POINT_OF[k], s=g.choice([s, 1.0]))
    d = g.compact_increment(k)
    if k in ("se2", "se3") and g.choice([False, False, False, True]):
        # two poses with bitwise-identical rotation, a pure translation apart (a translating platform)
        n = R.PDIM[k]
        b = {"k": k, "v": list(b["v"][:n]) + list(a["v"][n:])}
    # raw ndarray operands of another numeric dtype (an integer landmark table, float32 sensor data): same values, same result
    npk = R.PDIM[k]
    big = g.choice([5, 5, 1000])
    ipt = [g.rnd.randint(-big, big) for _ in range(npk)]
    idl = [g.rnd.randint(-big, big) for _ in range(npk)]
    if k == "se2":
        idl.append(g.rnd.randint(-3, 3))
    if k == "se3":
        rot = [0, 0, 0]
        if g.rnd.random() < 0.5:
            rot[g.rnd.randrange(3)] = g.rnd.choice([1, -1])
        idl += rot
    return {"k": k, "a": a, "b": b, "c": c, "pt": pt, "d": d, "ipt": ipt, "idl": idl, "npdtype": g.choice(["int64", "int32", "float32", "int16"])}


def strategy(tier):
    return strategy_()


def summarise(case):
    return case


def _cmp_pose(ctx, sig, name, kind, got, want, S_, nf=1.0, rot_tol=1e-12):
    """Compare a graphslam pose `got` with reference list `want` as physical poses."""
    g = gs.stored(got)
    w = [float(R.val(x)) for x in want]
    if len(g) != len(w):
        return ctx.fail(sig, "%s: length %d != %d" % (name, len(g), len(w)))
    n = R.PDIM[kind]
    ttol = 1e-11 * (1.0 + S_) * nf
    if ctx.check_close(sig, name + ".t", g[:n], w[:n], ttol):
        return True
    if kind == "se2":
        d = R.wrap(g[2] - w[2])
        if not (abs(d) <= rot_tol):
            return ctx.fail(sig, "%s: angle differs by %.3e (got %r want %r mod 2pi)" % (name, d, g[2], w[2]))
        ctx.deviation(name + ".rot", abs(d), rot_tol)
    elif kind == "se3":
        gq, wq = np.array(g[3:]), np.array(w[3:])
        sgn = 1.0 if float(np.dot(gq, wq)) >= 0 else -1.0
        if ctx.check_close(sig, name + ".q", gq, sgn * wq, rot_tol):
            return True
    return False


def check(case, ctx):
    k = case["k"]
    cls = gs.CLS[k]
    a, b, c = gs.mk_pose(case["a"]), gs.mk_pose(case["b"]), gs.mk_pose(case["c"])
    pt = gs.mk_pose(case["pt"])
    d = np.array(case["d"], dtype=float)
    ra, rb, rc, rpt = gs.stored(a), gs.stored(b), gs.stored(c), gs.stored(pt)
    S_ = gs.max_trans(case["a"], case["b"], case["c"], case["pt"])
    S_ = max(S_, float(np.max(np.abs(d[: R.PDIM[k]]))))

    nontriv = any(gs.outside_suite_box(case[x]) for x in ("a", "b", "c", "pt"))
    ctx.nontrivial(nontriv)
    ctx.event("kind:" + k)
    if k == "se3":
        ws = [case[x]["v"][6] for x in ("a", "b", "c")]
        if any(w < 0 for w in ws):
            ctx.event("w<0")
        if any(w == 0 for w in ws):
            ctx.event("w==0")
        if any(abs(w) == 1.0 for w in ws):
            ctx.event("identity-rotation")
    if k == "se2":
        if any(abs(abs(case[x]["v"][2]) - math.pi) < 1e-3 for x in ("a", "b", "c")):
            ctx.event("near-pi")
    if S_ > 1e3:
        ctx.event("S>1e3")
    elif S_ > 1:
        ctx.event("S>1")

    if k == "se2":
        # single-precision data seen earlier (a float32 log record) must not influence later double-precision results: the
        # same heading first as np.float32, then - the identical value - as a Python float
        th32 = float(np.float32(case["a"]["v"][2]))
        _ = gs.PoseSE2([0.0, 0.0], np.float32(th32)), gs.PoseSE2([1.0, 2.0], np.float32(th32)) + b
        a32 = gs.PoseSE2(list(case["a"]["v"][:2]), th32)
        if _cmp_pose(ctx, "float32-call-influences-float64", "PoseSE2(x, float) after PoseSE2(x, np.float32) of the same value", k, a32, [case["a"]["v"][0], case["a"]["v"][1], th32], S_, 1, 1e-15 * (1 + abs(th32))):
            return
        if _cmp_pose(ctx, "float32-call-influences-float64", "a32+b after a float32 call", k, a32 + b, R.mul(k, gs.stored(a32), rb), S_, 2):
            return
    a0, b0, c0, pt0 = gs.bits(a), gs.bits(b), gs.bits(c), gs.bits(pt)

    # ---- (+) is multiplication of homogeneous matrices ---------------------------------
    ab = a + b
    if type(ab) is not cls:
        return ctx.fail("type", "type(a+b) = %s, expected %s" % (type(ab).__name__, cls.__name__))
    if _cmp_pose(ctx, "oplus", "a+b", k, ab, R.mul(k, ra, rb), S_, 2):
        return
    Mref = R.hmat(k, ra) @ R.hmat(k, rb)
    if ctx.check_close("oplus-matrix", "hmat(a+b)", R.hmat(k, gs.stored(ab)), Mref, 1e-11 * (1 + S_) * 2):
        return
    if hasattr(ab, "to_matrix"):
        if ctx.check_close("to_matrix", "(a+b).to_matrix()", np.asarray(ab.to_matrix()), Mref, 1e-11 * (1 + S_) * 2):
            return
        if ctx.check_close("to_matrix", "a.to_matrix()", np.asarray(a.to_matrix()), R.hmat(k, ra), 1e-12 * (1 + S_)):
            return
    if k == "se2":
        rt = type(a).from_matrix(a.to_matrix())
        if _cmp_pose(ctx, "from_matrix", "from_matrix(to_matrix(a))", k, rt, ra, S_):
            return

    # ---- a (-) b = b^-1 (+) a ---------------------------------------------------------
    amb = a - b
    if type(amb) is not cls:
        return ctx.fail("type", "type(a-b) = %s, expected %s" % (type(amb).__name__, cls.__name__))
    if _cmp_pose(ctx, "ominus", "a-b", k, amb, R.ominus(k, ra, rb), S_, 4):
        return
    if _cmp_pose(ctx, "ominus-def", "a-b vs b.inverse+a", k, amb, gs.stored(b.inverse + a), S_, 4):
        return

    # ---- inverse and identity are two-sided ---------------------------------------------
    ai = a.inverse
    if type(ai) is not cls:
        return ctx.fail("type", "type(a.inverse) = %s" % type(ai).__name__)
    if _cmp_pose(ctx, "inverse", "a.inverse", k, ai, R.inv(k, ra), S_, 2):
        return
    ident = R.identity(k)
    if _cmp_pose(ctx, "inverse-law", "a+a.inverse", k, a + ai, ident, S_, 4):
        return
    if _cmp_pose(ctx, "inverse-law", "a.inverse+a", k, ai + a, ident, S_, 4):
        return
    # identity() hands out an object the caller may edit (e.g. to build a pure translation): the next identity() is unaffected
    scratch = cls.identity()
    np.asarray(scratch)[0] = 1.25
    if k in ("se2", "se3"):
        np.asarray(scratch)[R.PDIM[k]] = 0.5
    e = cls.identity()
    if e is scratch or np.shares_memory(np.asarray(e), np.asarray(scratch)):
        return ctx.fail("identity-shared", "identity() returned an object sharing memory with the one returned before")
    if type(e) is not cls:
        return ctx.fail("type", "type(identity()) = %s" % type(e).__name__)
    if _cmp_pose(ctx, "identity", "identity()", k, e, ident, 0.0):
        return
    if _cmp_pose(ctx, "identity-law", "a+identity", k, a + e, ra, S_):
        return
    if _cmp_pose(ctx, "identity-law", "identity+a", k, e + a, ra, S_):
        return
    if _cmp_pose(ctx, "identity-law", "a-identity", k, a - e, ra, S_):
        return
    if _cmp_pose(ctx, "inverse-law", "a-a", k, a - a, ident, S_, 4):
        return

    # ---- associativity -------------------------------------------------------------------
    if _cmp_pose(ctx, "assoc", "(a+b)+c vs a+(b+c)", k, (a + b) + c, gs.stored(a + (b + c)), S_, 6):
        return
    if _cmp_pose(ctx, "assoc", "(a+b)+c vs ref", k, (a + b) + c, R.mul(k, R.mul(k, ra, rb), rc), S_, 6):
        return

    # ---- pose (+) point is the action of the transform ----------------------------------------
    pk = R.POINT_OF[k]
    pcls = gs.CLS[pk]
    ap = a + pt
    if type(ap) is not pcls:
        return ctx.fail("type", "type(pose+point) = %s, expected %s" % (type(ap).__name__, pcls.__name__))
    n = R.PDIM[k]
    want = (R.hmat(k, ra) @ np.array(rpt + [1.0]))[:n]
    if ctx.check_close("action", "a+point", gs.stored(ap), want, 1e-11 * (1 + S_) * 2):
        return
    if ctx.check_close("action", "a+point vs ref act", gs.stored(ap), [R.val(x) for x in R.act(k, ra, rpt)], 1e-11 * (1 + S_) * 2):
        return
    if k in ("se2", "se3"):
        # a plain ndarray of the point's length is also a point
        ap2 = a + np.array(rpt)
        if type(ap2) is not pcls:
            return ctx.fail("type", "type(pose+ndarray point) = %s" % type(ap2).__name__)
        if gs.bits(ap2) != gs.bits(ap):
            return ctx.fail("action", "pose+ndarray(point) differs from pose+Point: %r vs %r" % (gs.stored(ap2), gs.stored(ap)))

    # ---- boxplus: p [+] delta = p (+) from_compact(delta) --------------------------------------
    bp = a + d
    if type(bp) is not cls:
        return ctx.fail("type", "type(pose+ndarray increment) = %s" % type(bp).__name__)
    rot_tol = 1e-12
    ambiguous = False
    if k == "se3":
        n2 = math.fsum(x * x for x in d[3:])
        npn = float(np.linalg.norm(d[3:]))
        if abs(npn - 1.0) <= 4 * EPS and npn > 1.0:
            ambiguous = True  # within rounding of the clipping radius: either branch is acceptable
        qw = math.sqrt(max(0.0, 1.0 - n2))
        rot_tol = 1e-12 + (1e-6 if qw < 1e-7 else min(1e-6, 1e-13 / qw))
        if n2 > 0.98:
            ctx.event("boxplus-near-unit-radius")
    if ambiguous:
        ctx.event("ambiguous-boxplus-boundary")
    else:
        dd = [float(x) for x in d]
        if k == "se3":
            while dd[3] * dd[3] + dd[4] * dd[4] + dd[5] * dd[5] > 1.0:
                dd = dd[:3] + [x * (1.0 - 3e-16) for x in dd[3:]]
        if _cmp_pose(ctx, "boxplus", "a+delta vs ref", k, bp, R.boxplus(k, ra, dd), S_, 2, rot_tol):
            return
        fc = gs.mk_pose_kv(k, [R.val(x) for x in R.from_compact(k, dd)])
        if _cmp_pose(ctx, "boxplus", "a+delta vs a+from_compact(delta)", k, bp, gs.stored(a + fc), S_, 2, rot_tol):
            return

    # ---- plain ndarrays of any numeric dtype are values: an integer / float32 point or increment acts like its float64 twin
    if "ipt" in case:
        dt = np.dtype(case["npdtype"])
        ctx.event("ndarray-operand-dtype:" + dt.name)
        for name, vals, is_point in (("point", case["ipt"], True), ("increment", case["idl"], False)):
            arr_t = np.array(vals, dtype=dt)
            arr_f = np.array(vals, dtype=np.float64)
            snap_t = arr_t.tobytes()
            got, twin = a + arr_t, a + arr_f
            if type(got) is not type(twin):
                return ctx.fail("ndarray-dtype", "type(pose + %s ndarray %s) = %s, expected %s" % (dt.name, name, type(got).__name__, type(twin).__name__))
            if np.asarray(got).dtype != np.float64:
                return ctx.fail("ndarray-dtype", "pose + %s ndarray %s has dtype %s" % (dt.name, name, np.asarray(got).dtype))
            Sx = max(S_, float(max(abs(v) for v in vals)))
            if is_point and k in ("se2", "se3"):
                want_ = [R.val(x) for x in R.act(k, ra, [float(v) for v in vals])]
                if ctx.check_close("ndarray-dtype", "a + %s point vs reference action" % dt.name, gs.stored(got), want_, 1e-11 * (1 + Sx) * 2):
                    return
            elif not is_point:
                if _cmp_pose(ctx, "ndarray-dtype", "a + %s increment vs ref boxplus" % dt.name, k, got, R.boxplus(k, ra, [float(v) for v in vals]), Sx, 2, 1e-12):
                    return
            if gs.bits(got) != gs.bits(twin):
                return ctx.fail("ndarray-dtype", "pose + %s ndarray %s %r differs from pose + the same values as float64: %r vs %r" % (dt.name, name, vals, gs.stored(got), gs.stored(twin)))
            if arr_t.tobytes() != snap_t:
                return ctx.fail("operand-mutated", "the %s ndarray operand changed" % dt.name)

    # ---- += rebinds, never mutates ----------------------------------------------------------------
    p = a
    old = a
    p += b
    if p is old:
        return ctx.fail("iadd", "p += x returned the same object (in-place)")
    if gs.bits(p) != gs.bits(a + b) or type(p) is not cls:
        return ctx.fail("iadd", "p += x differs from p + x")
    p2 = a
    p2 += d
    if gs.bits(p2) != gs.bits(bp) or type(p2) is not cls:
        return ctx.fail("iadd", "p += delta differs from p + delta")

    # ---- results are independent objects: computing another result must not change one that is still held
    held = [("a+b", a + b), ("a-b", a - b), ("a.inverse", a.inverse), ("a+point", a + pt), ("a+delta", a + d), ("a.copy()", a.copy())]
    snap = [gs.bits(r) for _, r in held]
    _ = c + b, c - b, c.inverse, c + pt, b + pt, c + d, b + (0.5 * d), c.copy(), b.copy()
    _ = cls.identity()
    for (name, r), sb in zip(held, snap):
        if gs.bits(r) != sb:
            return ctx.fail("result-overwritten-by-later-call", "the result of %s changed when the same operation was applied to other operands" % name)
    for i in range(len(held)):
        for j in range(i + 1, len(held)):
            if np.shares_memory(np.asarray(held[i][1]), np.asarray(held[j][1])):
                return ctx.fail("result-overwritten-by-later-call", "results of %s and %s share memory" % (held[i][0], held[j][0]))
    for name, r in held:
        for on, o in (("a", a), ("b", b), ("pt", pt)):
            if np.shares_memory(np.asarray(r), np.asarray(o)):
                return ctx.fail("result-aliases-operand", "the result of %s shares memory with operand %s" % (name, on))

    # ---- history: a pose is an ndarray and may legitimately be modified in place (normalize() does); results must
    #      follow the current contents (no value cached on the instance by an earlier call)
    for variant in (0, 1):
        a2 = a.copy()
        _ = a2.inverse, a2 + b, a2 - b, a2 + pt
        arr = np.asarray(a2)
        arr[0] = arr[0] * 0.5 + 1.25
        if k == "se3":
            qc = np.array(np.asarray(c)[3:], dtype=np.float64)
            if variant == 0:
                # a DIFFERENT unit quaternion written by plain slice assignment and nothing else (no normalize() call
                # that a cache could hook into) - round 9, C09-l
                arr[3:] = qc / np.sqrt(qc.dot(qc))
            else:
                # a different rotation, written by plain slice assignment, then (as the library's users do) normalize()
                arr[3:] = qc * 2.0
                a2.normalize()
        elif k == "se2":
            arr[2] = -0.5 * arr[2] + 0.25 if variant else 0.5 * arr[2] - 0.125
        elif variant == 0:
            continue
        ra2 = gs.stored(a2)
        S2 = max(S_, abs(ra2[0]))
        tag = " after in-place change" + ("" if variant else " (no normalize)")
        if _cmp_pose(ctx, "stale-after-in-place-change", "inverse" + tag, k, a2.inverse, R.inv(k, ra2), S2, 2):
            return
        if _cmp_pose(ctx, "stale-after-in-place-change", "a+b" + tag, k, a2 + b, R.mul(k, ra2, rb), S2, 2):
            return
        if _cmp_pose(ctx, "stale-after-in-place-change", "a-b" + tag, k, a2 - b, R.ominus(k, ra2, rb), S2, 4):
            return
        if ctx.check_close("stale-after-in-place-change", "a+point" + tag, gs.stored(a2 + pt), [R.val(x) for x in R.act(k, ra2, rpt)], 1e-11 * (1 + S2) * 2):
            return
        if _cmp_pose(ctx, "stale-after-in-place-change", "b+a" + tag, k, b + a2, R.mul(k, rb, ra2), S2, 2):
            return

    # ---- operands untouched -----------------------------------------------------------------------
    if (gs.bits(a), gs.bits(b), gs.bits(c), gs.bits(pt)) != (a0, b0, c0, pt0):
        return ctx.fail("operand-mutated", "an operand changed during pose arithmetic")
    if gs.bits(d) != gs.bits(case["d"]):
        return ctx.fail("operand-mutated", "the increment array changed during boxplus")
