"""C01 - analytic edge Jacobians are the exact derivative of the edge error."""
import numpy as np

from .. import edgecases as E, gs, refmodel as R, strategies as S

ID = "C01"
RULE = (
    "One edge per case: kind in {odometry R2,R3,SE2,SE3; landmark SE2->R2, SE3->R3, R2->R2, R3->R3}; both vertex poses, the "
    "measurement and the offset drawn independently (all signs, w<0, w=0, |w| tiny, theta on both sides of +-pi, translations up "
    "to 1e6, offsets with arbitrary rotation). Oracle O1: Richardson central differences of the edge's own calc_error under "
    "vertex.pose + delta; O2: forward-mode AD of the independent reference error model w.r.t. the reference boxplus. "
    "History: calc_jacobians is called before any other query on the fresh edge and again right after the vertices are moved to a second state "
    "(an independent pose, or the same physical pose in another representation: -q / theta+2pi), so a Jacobian that depends on earlier calls is caught. "
    "Non-trivial = an operand outside the suite's box [0,1)^k or an offset with non-identity rotation; distinct = hash of the case. Histories added later: the measurement / offset objects are edited in place (third state), and the matrices returned by the first call must keep their values while later calls are made."
)
BUDGET = {"quick": 16 * 4000, "thorough": 16 * 60000}
TOLERANCES = {
    "O1 (Richardson CD of calc_error, h=2^-10 and 2^-11)": "1e-8*(1+S) translation rows, 1e-8 rotation rows",
    "O2 (AD of reference model)": "1e-11*(1 + S*[translation row]*[rotation column])",
    "error value vs reference": "1e-10*(1+S) translation rows, 1e-10 rotation rows (SE2 angle mod 2pi, SE3 rotation part up to one global sign)",
}
ASSUMPTIONS = [
    "reference model + AD trusted after self-test",
    "the measure-zero set where the SE(2) angular error wraps (and the 180-degree residual where an SE(3) error sign may flip) is handled by comparing modulo the wrap, not excluded",
]

H = 2.0**-10


@S.composite
def strategy_(g):
    case = E.gen_edge(g, info_kind=g.choice(["ident", "spd", "zero-rowcol", "psd"]), max_cond=1e2)  # the Jacobian must not depend on it
    # the vertices' fixed flags (as left behind by optimize(fix_first_pose=True) or set by the user) are irrelevant
    case["fixed"] = [g.choice([False, False, True]), g.choice([False, False, True])]
    # a second state for the same edge object (history): the Jacobians must follow the *current* vertex poses
    alt = g.choice(["same-pose-other-representation", "independent", "independent"])
    case["alt"] = alt
    if alt == "independent":
        case["p1b"] = g.pose(case["p1"]["k"], s=g.choice([1.0, 10.0]))
        case["p2b"] = g.pose(case["p2"]["k"], s=g.choice([1.0, 10.0]))
    else:
        def other_repr(p):
            v = list(p["v"])
            if p["k"] == "se3":
                v[3:] = [-x for x in v[3:]]
            elif p["k"] == "se2":
                v[2] = v[2] + 2 * np.pi * g.rnd.choice([-1, 1])
            return {"k": p["k"], "v": v}
        which = g.choice(["p1", "p2", "both"])
        case["p1b"] = other_repr(case["p1"]) if which in ("p1", "both") else case["p1"]
        case["p2b"] = other_repr(case["p2"]) if which in ("p2", "both") else case["p2"]
    # the second vertex may have been initialised FROM the measurement: one pose object is both edge.estimate and vertex.pose
    # (its kind is the measurement's kind for every edge type); the values are then equal, of course
    case["estimate_is_vertex_pose"] = g.choice([False, False, False, True])
    if case["estimate_is_vertex_pose"]:
        case["p2"] = {"k": case["z"]["k"], "v": list(case["z"]["v"])}
    # a third state: the measurement and (landmark edges) the sensor offset OBJECTS are edited in place - e.g. a calibration
    # parameter shared by several edges gets a new value - after the edge has been evaluated
    k0, k1, kz, ko = E.kinds_of(case["ek"])
    case["z_c"] = g.pose(kz, s=g.choice([1.0, 10.0]))
    case["off_c"] = g.pose(ko, s=g.choice([1.0, 10.0])) if ko else None
    return case


def strategy(tier):
    return strategy_()


def _code_err(edge, vi, delta):
    v = edge.vertices[vi]
    p0 = v.pose
    v.pose = p0 + delta
    try:
        return np.array(edge.calc_error(), dtype=float)
    finally:
        v.pose = p0


def _align(ek, e, e0):
    """Undo the SE(2) angular wrap / a possible SE(3) sign flip relative to the base error e0."""
    e = e.copy()
    if ek == "odo:se2":
        e[2] = e0[2] + R.wrap(e[2] - e0[2])
    elif ek == "odo:se3":
        if float(np.dot(e[3:], e0[3:])) < 0.0 and float(np.dot(e0[3:], e0[3:])) > 0.25:
            e[3:] = -e[3:]
    return e


def _cd(edge, ek, vi, c, e0, h):
    J = np.zeros((len(e0), c))
    for k in range(c):
        d = np.zeros(c)
        d[k] = h
        ep = _align(ek, _code_err(edge, vi, d), e0)
        em = _align(ek, _code_err(edge, vi, -d), e0)
        J[:, k] = (ep - em) / (2.0 * h)
    return J


def check(case, ctx):
    ek = case["ek"]
    nontriv, S_ = E.classify_edge(case, ctx)
    ctx.nontrivial(nontriv)
    edge, v1, v2 = E.build_edge(case)
    if case.get("estimate_is_vertex_pose"):
        ctx.event("estimate-object-is-the-second-vertex-pose")
        v2.pose = edge.estimate
    if "fixed" in case:
        v1.fixed, v2.fixed = bool(case["fixed"][0]), bool(case["fixed"][1])
        if any(case["fixed"]):
            ctx.event("vertex-flagged-fixed")
    k0, k1, kz, ko = E.kinds_of(ek)
    c = [R.CDIM[k0], R.CDIM[k1]]
    n = E.err_dim(ek)

    # the Jacobians are requested BEFORE any other query on the fresh edge: they must not depend on earlier calls
    held_raw = edge.calc_jacobians()
    J_first = [np.array(J, dtype=float) for J in held_raw]
    e0 = np.array(edge.calc_error(), dtype=float)
    if e0.shape != (n,):
        return ctx.fail("error-shape", "calc_error shape %s, expected (%d,)" % (e0.shape, n))
    if not np.all(np.isfinite(e0)):
        return ctx.fail("error-nonfinite", "calc_error returned %r" % e0.tolist())
    Js = edge.calc_jacobians()
    if len(Js) != 2:
        return ctx.fail("jacobian-shape", "calc_jacobians returned %d matrices" % len(Js))
    Js = [np.array(J, dtype=float) for J in Js]
    for i in range(2):
        if Js[i].shape != (n, c[i]):
            return ctx.fail("jacobian-shape", "Jacobian %d has shape %s, expected %s" % (i, Js[i].shape, (n, c[i])))
        if len(J_first) != 2 or J_first[i].shape != Js[i].shape or not np.array_equal(J_first[i], Js[i]):
            return ctx.fail("jacobian-depends-on-call-history", "calc_jacobians() on a fresh edge differs from calc_jacobians() after calc_error() (vertex %d, edge %s)" % (i, ek))

    rp1, rp2, rz, roff = E.ref_operands(edge)
    eref, J0, J1 = E.ref_error_and_jacobians(ek, rp1, rp2, rz, roff)
    Jref = [J0, J1]

    # ---- value agreement (needed to fix the SE(3) sign / SE(2) wrap conventions for the comparison)
    sgn = 1.0
    ev = eref.copy()
    if ek == "odo:se2":
        ev[2] = e0[2] + R.wrap(eref[2] - e0[2])
    both_signs = False
    if ek == "odo:se3":
        nr = float(np.linalg.norm(eref[3:]))
        if nr < 1e-9:
            both_signs = True
        elif float(np.dot(e0[3:], eref[3:])) < 0:
            sgn = -1.0
            ctx.event("error-sign-flipped-vs-reference")
        ev[3:] = sgn * eref[3:]
    if ctx.check_close("error-vs-reference", "calc_error", e0, ev, E.tol_rows(ek, S_, 1e-10)):
        return

    rowT = (E.tol_rows(ek, 1.0, 1.0) > 1.5).astype(float)  # 1 for translation rows
    at_wrap = ek == "odo:se2" and abs(abs(e0[2]) - np.pi) < 4 * H
    if at_wrap:
        ctx.event("at-se2-error-wrap")
    if ek == "odo:se3":
        wq = 1.0 - float(np.dot(e0[3:], e0[3:]))
        if wq < 1e-4:
            ctx.event("near-180deg-residual")

    for i, kv in enumerate((k0, k1)):
        colR = np.zeros(c[i])
        if kv == "se2":
            colR[2] = 1.0
        elif kv == "se3":
            colR[3:] = 1.0
        # ---- O2: AD of the reference model
        Jr = Jref[i].copy()
        tol2 = 1e-11 * (1.0 + S_ * rowT[:, None] * colR[None, :])
        if ek == "odo:se3":
            if both_signs:
                d_plus = np.abs(Js[i][3:] - Jr[3:]).max()
                d_minus = np.abs(Js[i][3:] + Jr[3:]).max()
                if d_minus < d_plus:
                    Jr[3:] = -Jr[3:]
            else:
                Jr[3:] = sgn * Jr[3:]
        if ctx.check_close("jacobian-vs-AD", "J[%d] vs AD(reference)" % i, Js[i], Jr, tol2, "edge %s" % ek):
            return
        # ---- O1: Richardson central differences of the code's own error function
        D1 = _cd(edge, ek, i, c[i], e0, H)
        D2 = _cd(edge, ek, i, c[i], e0, H / 2.0)
        Jcd = (4.0 * D2 - D1) / 3.0
        tol1 = 1e-8 * (1.0 + S_ * rowT[:, None] * np.ones(c[i])[None, :])
        if ctx.check_close("jacobian-vs-CD", "J[%d] vs Richardson CD(calc_error)" % i, Js[i], Jcd, tol1, "edge %s" % ek):
            return

    def state_check(sig, what, S_now):
        """Jacobians requested FIRST in the current state of the same edge object, compared with AD of the reference."""
        Jn = [np.array(J, dtype=float) for J in edge.calc_jacobians()]
        en = np.array(edge.calc_error(), dtype=float)
        rp1, rp2, rz, roff = E.ref_operands(edge)
        eref, J0, J1 = E.ref_error_and_jacobians(ek, rp1, rp2, rz, roff)
        sgn = 1.0
        both = False
        if ek == "odo:se3":
            if float(np.linalg.norm(eref[3:])) < 1e-9:
                both = True
            elif float(np.dot(en[3:], eref[3:])) < 0:
                sgn = -1.0
        for i, (kv, Jr) in enumerate(zip((k0, k1), (J0, J1))):
            colR = np.zeros(c[i])
            if kv == "se2":
                colR[2] = 1.0
            elif kv == "se3":
                colR[3:] = 1.0
            Jr = Jr.copy()
            if ek == "odo:se3":
                if both:
                    if np.abs(Jn[i][3:] + Jr[3:]).max() < np.abs(Jn[i][3:] - Jr[3:]).max():
                        Jr[3:] = -Jr[3:]
                else:
                    Jr[3:] = sgn * Jr[3:]
            tol2 = 1e-11 * (1.0 + S_now * rowT[:, None] * colR[None, :])
            if ctx.check_close(sig, "J[%d] %s vs AD(reference)" % (i, what), Jn[i], Jr, tol2, "edge %s" % ek):
                return True
        return False

    # ---- history: move the vertices (new state of the same edge object) and ask for the Jacobians first
    if "p1b" in case:
        ctx.event("alt:" + case["alt"])
        v1.pose = gs.mk_pose(case["p1b"])
        v2.pose = gs.mk_pose(case["p2b"])
        Sb = max(S_, gs.max_trans(case["p1b"], case["p2b"]))
        if state_check("jacobian-stale-after-state-change", "after moving the vertices (%s)" % case["alt"], Sb):
            return
        v1.pose = gs.mk_pose(case["p1"])
        v2.pose = gs.mk_pose(case["p2"])

    # ---- history: the measurement / offset objects are edited IN PLACE (same objects, new numbers)
    if "z_c" in case:
        z_old = np.array(np.asarray(edge.estimate), dtype=float)
        np.asarray(edge.estimate)[:] = np.asarray(gs.mk_pose(case["z_c"]), dtype=float)
        Sc = max(S_, gs.max_trans(case["z_c"]))
        off_old = None
        if case.get("off_c") is not None:
            off_old = np.array(np.asarray(edge.offset), dtype=float)
            np.asarray(edge.offset)[:] = np.asarray(gs.mk_pose(case["off_c"]), dtype=float)
            Sc = max(Sc, gs.max_trans(case["off_c"]))
        ctx.event("measurement-and-offset-edited-in-place")
        if state_check("jacobian-stale-after-in-place-edit", "after editing the measurement / offset objects in place", Sc):
            return
        np.asarray(edge.estimate)[:] = z_old
        if off_old is not None:
            np.asarray(edge.offset)[:] = off_old

    # ---- the matrices returned by the very first call are the caller's: later calls must not have overwritten them
    for i in range(2):
        if not np.array_equal(np.asarray(held_raw[i], dtype=float), J_first[i]):
            return ctx.fail("jacobian-result-overwritten-by-later-call", "the matrix returned by the first calc_jacobians() call (vertex %d, edge %s) changed during later calls" % (i, ek))

    # the vertices were restored bit-exactly by our own probing
    if case.get("estimate_is_vertex_pose"):
        return
    if gs.bits(v1.pose) != gs.bits(gs.mk_pose(case["p1"])) or gs.bits(v2.pose) != gs.bits(gs.mk_pose(case["p2"])):
        return ctx.fail("state-changed", "vertex pose changed while evaluating errors/Jacobians")
