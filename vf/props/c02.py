"""C02 - edge errors and chi^2 implement the documented measurement model."""
import numpy as np

from .. import edgecases as E, gs, hugegraph as HG, refmodel as R, strategies as S

ID = "C02"
RULE = (
    "Two case shapes. 'edge': one edge of any of the 8 kinds with operands from the value generators and an information matrix "
    "that is SPD with cross terms / PSD-singular / indefinite / diagonal / identity with condition number up to 1e8: calc_error vs the "
    "independent Hamilton/homogeneous model, calc_chi2 vs the explicit double sum, zero-chi2 for a measurement computed from the reference "
    "relative pose, the exact chi2 d^T Omega d for a measurement displaced by d, PSD => chi2 >= 0, linearity in Omega. 'graph': 1..12 "
    "edges over shared vertices, Graph.calc_chi2 vs the sum of reference chi2. Non-trivial = information non-diagonal or ill-conditioned "
    "(cond >= 1e4), or an operand outside the suite box [0,1)^k. Also: the same edge objects evaluated in a second Graph over new Vertex objects; information in narrow dtypes (int8..int64, float16/32, bool); with probability 0.3% a large R^n graph of 4096/4097/8193/10000/16385 edges whose chi2 is compared with a vectorised closed form."
)
BUDGET = {"quick": 16 * 5000, "thorough": 16 * 50000}
TOLERANCES = {
    "error": "1e-10*(1+S) translation rows, 1e-10 rotation rows; SE2 angle mod 2pi; SE3 rotational part = vector part of the error quaternion with w >= 0 (either sign accepted only within 1e-6 of a 180-degree residual)",
    "chi2": "1e-9*A + 2*sum_ij |Omega_ij| |e_i| tol_e_j, A = sum_ij |e_i||Omega_ij||e_j|",
}
ASSUMPTIONS = ["reference model trusted after self-test", "information matrices are symmetric (generator symmetrises exactly)"]

INFO_KINDS = ["spd", "spd", "spd", "psd", "zero-rowcol", "indef", "diag", "ident", "blockdiag"]


@S.composite
def strategy_(g):
    if g.rnd.random() < 0.003:
        return HG.gen(g)
    shape = g.choice(["edge", "edge", "edge", "graph"])
    if shape == "edge":
        ik = g.choice(INFO_KINDS)
        case = E.gen_edge(g, info_kind=ik)
        k0, k1, kz, ko = E.kinds_of(case["ek"])
        n = R.CDIM[kz]
        case["shape"] = "edge"
        if g.choice([False] * 5 + [True]):
            case["info"], case["info_dtype"] = E.narrow_info(g, n)
            ik = "spd"
        case["ik"] = ik
        case["info2"] = g.sym_matrix(n, kind=g.choice(["spd", "indef", "diag"]))
        case["ab"] = [g.rnd.uniform(-3, 3), g.rnd.uniform(-3, 3)]
        # displacement of the measurement (translation part), magnitude >= 1e-3
        mag = 10.0 ** g.rnd.uniform(-3, 1)
        dv = g.unit_axis()[: R.PDIM[kz]]
        nn = float(np.linalg.norm(dv)) or 1.0
        case["disp"] = [mag * x / nn for x in dv]
        # a second state of the same edge object: the error must follow the current vertex poses
        case["p1b"] = g.pose(k0, s=g.choice([1.0, 10.0]))
        case["p2b"] = g.pose(k1, s=g.choice([1.0, 10.0]))
        case["fixed"] = [g.choice([False, False, True]), g.choice([False, False, True])]  # irrelevant to errors and chi2
        return case
    # small graph
    k = g.kind()
    pk = R.POINT_OF[k]
    s = g.scale(1e3)
    npose = g.integer(2, 5)
    nlm = g.integer(0, 3)
    poses = [g.pose(k, s=s) for _ in range(npose)]
    lms = [g.pose(pk, s=s) for _ in range(nlm)]
    nedges = g.integer(1, 12)
    edges = []
    rnd = g.rnd
    for _ in range(nedges):
        if nlm and rnd.random() < 0.4:
            i, j = rnd.randrange(npose), npose + rnd.randrange(nlm)
            edges.append({"t": "lm", "i": i, "j": j, "z": g.pose(pk, s=s), "off": g.pose(k, s=g.choice([s, 1.0, 0.0])), "info": g.sym_matrix(R.CDIM[pk], kind=g.choice(INFO_KINDS))})
        else:
            i, j = rnd.sample(range(npose), 2)
            edges.append({"t": "odo", "i": i, "j": j, "z": g.pose(k, s=s), "off": None, "info": g.sym_matrix(R.CDIM[k], kind=g.choice(INFO_KINDS))})
    poses_b = [g.pose(k, s=s) for _ in range(npose)]
    lms_b = [g.pose(pk, s=s) for _ in range(nlm)]
    return {"shape": "graph", "k": k, "poses": poses, "lms": lms, "edges": edges, "ids": g.ids(npose + nlm), "poses_b": poses_b, "lms_b": lms_b, "debug_log": g.choice([False, False, True])}


def strategy(tier):
    return strategy_()


def _explicit_chi2(e, om):
    n = len(e)
    tot = 0.0
    A = 0.0
    for i in range(n):
        for j in range(n):
            t = float(e[i]) * float(om[i, j]) * float(e[j])
            tot += t
            A += abs(t)
    return tot, A


def _chi2_tol(e, om, tol_e):
    """Bound on |chi2(e) - chi2(e')| for |e - e'| <= tol_e, plus relative rounding."""
    e = np.abs(np.asarray(e, dtype=float))
    om = np.abs(np.asarray(om, dtype=float))
    tol_e = np.broadcast_to(np.asarray(tol_e, dtype=float), e.shape)
    A = float(e @ om @ e)
    prop = 2.0 * float(e @ om @ tol_e) + float(tol_e @ om @ tol_e)
    return 1e-9 * A + prop + 1e-300


def _aligned_ref_error(ek, e_code, e_ref, w_err=None):
    """Reference error with the SE2 angle brought to the code's branch.  The SE3 rotational part is the vector part of
    the error quaternion with non-negative scalar part (the documented model since the repair of F2); only within 1e-6
    of a 180-degree residual (|w| < 1e-6), where that sign is decided by rounding, both signs are accepted."""
    ev = np.array(e_ref, dtype=float)
    if ek == "odo:se2":
        ev[2] = e_code[2] + R.wrap(ev[2] - e_code[2])
    if ek == "odo:se3" and (w_err is None or abs(w_err) < 1e-6):
        if float(np.dot(e_code[3:], ev[3:])) < 0:
            ev[3:] = -ev[3:]
    return ev


def _check_edge_model(ctx, ek, edge, S_, label="", operands=None):
    """calc_error vs reference, calc_chi2 vs explicit sum.  Returns (failed, chi2_ref, tol).
    `operands`: the two vertex objects the edge constrains (default: the ones the library linked)."""
    n = E.err_dim(ek)
    e_code = np.array(edge.calc_error(), dtype=float)
    if e_code.shape != (n,) or not np.all(np.isfinite(e_code)):
        return ctx.fail("error-shape", "calc_error returned %r" % (e_code.tolist(),)), None, None
    rp1, rp2, rz, roff = E.ref_operands(edge)
    if operands is not None:
        rp1, rp2 = gs.stored(operands[0].pose), gs.stored(operands[1].pose)
    e_ref = np.array([R.val(x) for x in E.ref_error(ek, rp1, rp2, rz, roff)], dtype=float)
    if ek == "odo:se2":
        # the reported angular error must itself be a wrapped angle
        if not (-np.pi - 1e-12 <= e_code[2] <= np.pi + 1e-12):
            return ctx.fail("error-angle-range", "SE2 angular error %r outside [-pi,pi]" % e_code[2]), None, None
    w_err = None
    if ek == "odo:se3":
        w_err = float(R.val(R.ominus("se3", rz, R.ominus("se3", rp2, rp1))[6]))
        if abs(w_err) < 1e-6:
            ctx.event("180deg-residual:sign-ambiguous")
    ev = _aligned_ref_error(ek, e_code, e_ref, w_err)
    tol_e = E.tol_rows(ek, S_, 1e-10)
    if ctx.check_close("error-vs-reference", "calc_error" + label, e_code, ev, tol_e, "edge %s" % ek):
        return True, None, None
    om = np.array(edge.information, dtype=float)
    chi_code = float(edge.calc_chi2())
    chi_own, A_own = _explicit_chi2(e_code, om)
    if not (abs(chi_code - chi_own) <= 1e-12 * A_own + 1e-300):
        return ctx.fail("chi2-vs-explicit-sum", "calc_chi2=%r but sum_ij e_i Om_ij e_j=%r (own error) %s" % (chi_code, chi_own, ek)), None, None
    ctx.deviation("chi2 vs explicit sum (own error)", abs(chi_code - chi_own), 1e-12 * A_own + 1e-300)
    chi_ref, _ = _explicit_chi2(ev, om)
    tol = _chi2_tol(ev, om, tol_e)
    if not (abs(chi_code - chi_ref) <= tol):
        return ctx.fail("chi2-vs-reference", "calc_chi2=%r reference=%r tol=%.3e %s" % (chi_code, chi_ref, tol, ek)), None, None
    ctx.deviation("chi2 vs reference", abs(chi_code - chi_ref), tol)
    return False, chi_ref, tol


def check(case, ctx):
    if case["shape"] == "huge":
        return HG.check_chi2(case, ctx)
    if case["shape"] == "graph":
        if case.get("debug_log"):
            # the application has switched the library's loggers to DEBUG: numbers must not depend on that
            from ..graphcheck import debug_logging

            ctx.event("library-loggers-at-DEBUG")
            with debug_logging():
                return _check_graph(case, ctx)
        return _check_graph(case, ctx)
    ek = case["ek"]
    nontriv, S_ = E.classify_edge(case, ctx)
    ik = case["ik"]
    ctx.event("info:" + ik)
    om = np.array(case["info"], dtype=float)
    offdiag = np.abs(om - np.diag(np.diag(om))).max() > 0
    ev_ = np.linalg.eigvalsh(om)
    illcond = ik == "spd" and ev_[-1] / max(ev_[0], 1e-300) >= 1e4
    if illcond:
        ctx.event("info-cond>=1e4")
    ctx.nontrivial(nontriv or offdiag or illcond)

    edge, v1, v2 = E.build_edge(case)
    if case.get("info_dtype"):
        ctx.event("information-dtype:" + case["info_dtype"])
    if "fixed" in case:
        v1.fixed, v2.fixed = bool(case["fixed"][0]), bool(case["fixed"][1])
    k0, k1, kz, ko = E.kinds_of(ek)
    n = R.CDIM[kz]

    # (a)+(b)
    failed, chi_ref, tol = _check_edge_model(ctx, ek, edge, S_)
    if failed:
        return

    # (e) PSD => chi2 >= -tol
    if ik in ("spd", "psd", "zero-rowcol", "diag", "ident", "blockdiag"):
        chi = float(edge.calc_chi2())
        if not (chi >= -tol):
            return ctx.fail("chi2-negative-for-psd", "chi2=%r < 0 with %s information" % (chi, ik))

    # (f) linearity in Omega
    om2 = np.array(case["info2"], dtype=float)
    a_, b_ = case["ab"]
    e_code = np.array(edge.calc_error(), dtype=float)
    c1 = float(edge.calc_chi2())
    edge.information = om2
    c2 = float(edge.calc_chi2())
    edge.information = a_ * om + b_ * om2
    c12 = float(edge.calc_chi2())
    edge.information = om
    _, A1 = _explicit_chi2(e_code, om)
    _, A2 = _explicit_chi2(e_code, om2)
    tl = 1e-11 * (abs(a_) * A1 + abs(b_) * A2) + 1e-300
    if not (abs(c12 - (a_ * c1 + b_ * c2)) <= tl):
        return ctx.fail("chi2-not-linear-in-information", "chi2(a*O1+b*O2)=%r but a*chi2(O1)+b*chi2(O2)=%r" % (c12, a_ * c1 + b_ * c2))
    ctx.deviation("linearity", abs(c12 - (a_ * c1 + b_ * c2)), tl)

    # (d) zero: a measurement computed from the reference relative pose / observation gives chi2 ~ 0,
    #     and displacing it by d gives chi2 = d^T Omega_tt d > 0 for SPD Omega
    rp1, rp2, rz, roff = E.ref_operands(edge)
    t_, kk = ek.split(":")
    if t_ == "odo":
        ztrue = [R.val(x) for x in R.ominus(kk, rp2, rp1)]
    else:
        T = R.inv(kk, R.mul(kk, rp1, roff))
        ztrue = [R.val(x) for x in R.act(kk, T, rp2)]
    zpose = gs.mk_pose_kv(kz, ztrue)
    edge.estimate = zpose
    e_zero = np.array(edge.calc_error(), dtype=float)
    Sz = max(S_, float(np.max(np.abs(ztrue[: R.PDIM[kz]]))))
    tol_e = E.tol_rows(ek, Sz, 1e-10)
    want0 = np.zeros(n)
    if ek == "odo:se2":
        e_zero[2] = R.wrap(e_zero[2])
    if ctx.check_close("zero-error-for-consistent-measurement", "error at consistent measurement", e_zero, want0, tol_e, ek):
        return
    chi0 = float(edge.calc_chi2())
    tol0 = _chi2_tol(np.zeros(n), om, tol_e)
    if not (abs(chi0) <= tol0):
        return ctx.fail("zero-chi2-for-consistent-measurement", "chi2=%r for a consistent measurement (tol %.3e) %s" % (chi0, tol0, ek))
    # displaced measurement
    disp = list(case["disp"])
    np_ = R.PDIM[kz]
    if t_ == "odo":
        delta = disp + [0.0] * (R.DIM[kz] - np_)
        if kz == "se3":
            delta[6] = 1.0
        zd = [R.val(x) for x in R.mul(kz, ztrue, delta)]
        want = np.array(disp + [0.0] * (n - np_))
    else:
        zd = [a - b for a, b in zip(ztrue, disp)]
        want = np.array(disp)
    edge.estimate = gs.mk_pose_kv(kz, zd)
    e_d = np.array(edge.calc_error(), dtype=float)
    if ek == "odo:se2":
        e_d[2] = R.wrap(e_d[2])
    Sd = max(Sz, float(np.max(np.abs(zd[:np_]))))
    tol_ed = E.tol_rows(ek, Sd, 1e-10)
    if ctx.check_close("error-for-displaced-measurement", "error at displaced measurement", e_d, want, tol_ed, ek):
        return
    chid = float(edge.calc_chi2())
    want_chi, _ = _explicit_chi2(want, om)
    told = _chi2_tol(want, om, tol_ed)
    if not (abs(chid - want_chi) <= told):
        return ctx.fail("chi2-for-displaced-measurement", "chi2=%r expected d^T Omega d=%r tol %.3e %s" % (chid, want_chi, told, ek))
    if ik in ("spd", "ident") or (ik == "diag" and ev_[0] > 0):
        lam_min = float(ev_[0])
        lower = 0.5 * lam_min * float(np.dot(want, want))
        if lower > 10 * told and not (chid >= lower):
            return ctx.fail("chi2-not-positive-for-inconsistent-measurement", "chi2=%r < lambda_min*|d|^2/2=%r" % (chid, lower))
    edge.estimate = gs.mk_pose(case["z"])

    # ---- history: move the vertices; error and chi2 must be those of the new state (no stale cache)
    if "p1b" in case:
        v1.pose = gs.mk_pose(case["p1b"])
        v2.pose = gs.mk_pose(case["p2b"])
        Sb = max(S_, gs.max_trans(case["p1b"], case["p2b"]))
        failed, _, _ = _check_edge_model(ctx, ek, edge, Sb, " (after moving the vertices)")
        if failed:
            return


def _check_graph(case, ctx):
    k = case["k"]
    pk = R.POINT_OF[k]
    ids = case["ids"]
    npose = len(case["poses"])
    verts = [gs.Vertex(ids[i], gs.mk_pose(p)) for i, p in enumerate(case["poses"])]
    verts += [gs.Vertex(ids[npose + i], gs.mk_pose(p)) for i, p in enumerate(case["lms"])]
    edges = []
    eks = []
    for e in case["edges"]:
        info = np.array(e["info"], dtype=float)
        if e["t"] == "odo":
            edges.append(gs.EdgeOdometry([ids[e["i"]], ids[e["j"]]], info, gs.mk_pose(e["z"])))
            eks.append("odo:" + k)
        else:
            edges.append(gs.EdgeLandmark([ids[e["i"]], ids[e["j"]]], info, gs.mk_pose(e["z"]), gs.mk_pose(e["off"]), offset_id=0))
            eks.append("lm:" + k)
    g = gs.Graph(edges, verts)
    ctx.event("graph:" + k)
    ctx.event("graph-edges:%d" % min(len(edges), 12))
    allp = case["poses"] + case["lms"] + [e["z"] for e in case["edges"]] + [e["off"] for e in case["edges"] if e["off"]]
    S_ = gs.max_trans(*allp)
    nondiag = any(np.abs(np.array(e["info"]) - np.diag(np.diag(np.array(e["info"])))).max() > 0 for e in case["edges"])
    ctx.nontrivial(nondiag or any(gs.outside_suite_box(p) for p in allp))
    total = 0.0
    tol_total = 0.0
    own_sum = 0.0
    for ek, edge in zip(eks, g._edges):
        failed, chi_ref, tol = _check_edge_model(ctx, ek, edge, S_, " (in graph)")
        if failed:
            return
        total += chi_ref
        tol_total += tol + 1e-12 * abs(chi_ref)
        own_sum += float(edge.calc_chi2())
    chi_g = float(g.calc_chi2())
    if not (abs(chi_g - total) <= tol_total + 1e-300):
        return ctx.fail("graph-chi2-vs-reference-sum", "Graph.calc_chi2=%r, sum of reference edge chi2=%r (tol %.3e)" % (chi_g, total, tol_total))
    ctx.deviation("graph chi2 vs reference sum", abs(chi_g - total), tol_total + 1e-300)
    A = sum(abs(float(e.calc_chi2())) for e in g._edges)
    if not (abs(chi_g - own_sum) <= 1e-12 * A + 1e-300):
        return ctx.fail("graph-chi2-vs-own-edge-sum", "Graph.calc_chi2=%r, sum of its edges' calc_chi2=%r" % (chi_g, own_sum))
    # history: optimize() with every vertex fixed moves nothing; afterwards the graph chi2 is still the sum over ALL edges
    from ..graphcheck import optimize_quiet

    for v in g._vertices:
        v.fixed = True
    before = [gs.bits(v.pose) for v in g._vertices]
    optimize_quiet(g, tol=0.0, max_iter=1, fix_first_pose=False, verbose=False)
    if [gs.bits(v.pose) for v in g._vertices] != before:
        return ctx.fail("all-fixed-optimize-moved-a-vertex", "optimize() with every vertex fixed changed a pose")
    chi_after = float(g.calc_chi2())
    if not (abs(chi_after - total) <= tol_total + 1e-300):
        return ctx.fail("graph-chi2-vs-reference-sum", "after an optimize() call with all vertices fixed: Graph.calc_chi2=%r, sum of reference edge chi2=%r" % (chi_after, total))
    # history: a second state of the same graph object (vertices moved) must give the chi2 of that state
    if case.get("poses_b"):
        for v, p in zip(g._vertices, case["poses_b"] + case["lms_b"]):
            v.pose = gs.mk_pose(p)
        Sb = max(S_, gs.max_trans(*(case["poses_b"] + case["lms_b"])))
        total = 0.0
        tol_total = 0.0
        for ek, edge in zip(eks, g._edges):
            failed, chi_ref, tol = _check_edge_model(ctx, ek, edge, Sb, " (in graph, second state)")
            if failed:
                return
            total += chi_ref
            tol_total += tol + 1e-12 * abs(chi_ref)
        chi_g = float(g.calc_chi2())
        if not (abs(chi_g - total) <= tol_total + 1e-300):
            return ctx.fail("graph-chi2-vs-reference-sum", "after moving the vertices: Graph.calc_chi2=%r, sum of reference edge chi2=%r (tol %.3e)" % (chi_g, total, tol_total))
        # history: the same edge objects in a second Graph over NEW Vertex objects (same ids, the first state's poses): errors
        # and chi2 are those of the graph they are evaluated in, i.e. of the vertices with the ids the edge names in that graph
        verts2 = [gs.Vertex(ids[i], gs.mk_pose(p)) for i, p in enumerate(case["poses"] + case["lms"])]
        g2 = gs.Graph(list(g._edges), verts2)
        by_id = {v.id: v for v in verts2}
        total = 0.0
        tol_total = 0.0
        for ek, edge in zip(eks, g2._edges):
            failed, chi_ref, tol = _check_edge_model(ctx, ek, edge, Sb, " (same edge objects in a second graph with new vertex objects)", operands=[by_id[i] for i in edge.vertex_ids])
            if failed:
                return
            total += chi_ref
            tol_total += tol + 1e-12 * abs(chi_ref)
        chi_g = float(g2.calc_chi2())
        if not (abs(chi_g - total) <= tol_total + 1e-300):
            return ctx.fail("graph-chi2-vs-reference-sum", "second graph over the same edge objects: Graph.calc_chi2=%r, sum of reference edge chi2=%r (tol %.3e)" % (chi_g, total, tol_total))
