"""C13 - .g2o export followed by import is lossless."""
import math
import os
import shutil
import tempfile

import numpy as np

from .. import exactangle as XA, g2otext as GT, gs, hugegraph as HG, refmodel as R, strategies as S
from graphslam.g2o_parameters import G2OParameterSE2Offset, G2OParameterSE3Offset
from .c14 import load_with_log
from .c02 import _chi2_tol

ID = "C13"
RULE = (
    "Histories of 1..5 export/import cycles to real temporary files, optionally with an in-place edit (offset / vertex / measurement / information entry) of the loaded graph between cycles. Sources: (i) graphs loaded from generated .g2o text (the C14 grammar, "
    "incl. registered custom edge types that support export), (ii) graphs built programmatically: SE2/SE3 poses, R2/R3 landmarks, odometry and "
    "landmark edges, SE3 offsets with rotation (registered as parameters or not), ids negative / > 2^63, quaternions with w<0, non-diagonal "
    "information, numbers spanning 1e-300..1e300 incl. subnormals; (iii) the same plus one piece of content the format cannot express (R^n "
    "odometry edge, R^n->R^n landmark edge, SE2 landmark edge with a non-identity offset, SE3 landmark edge without an offset id, two SE3 "
    "landmark edges sharing an offset id with different offsets). Oracle: round trip equality of counts, order, ids, pose types, bit-identical "
    "numbers (SE2 angles: congruent within 8*eps*(|theta|+pi); SE3 measurement quaternions: +-q/|q|), parameters, chi2; files stable from the "
    "second cycle; non-expressible content must make to_g2o raise - a file that is written must load and compare equal. Non-trivial = a landmark "
    "edge with offset, a w<0 quaternion, a number outside [1e-6,1e6], or >= 2 cycles. Also: integer-dtype information with entries in the upper half of the dtype range; with probability 0.2% an SE2 graph of 16384..32769 edges through one cycle."
)
BUDGET = {"quick": 16 * 1500, "thorough": 16 * 8000}
TOLERANCES = {
    "numbers": "bit-identical except SE2 angles (exact congruence within 8*eps*(|theta|+pi)) and SE3 measurement quaternions (+-q/|q| within 4 ulp)",
    "chi2": "1e-12*A + propagation of 1e-14*(1+S) error changes (skipped when not finite)",
    "files from the 2nd cycle": "token-wise identical; numeric tokens may differ by <= 1e-15 relative (angle re-wrap / renormalisation are not exactly idempotent)",
}
ASSUMPTIONS = ["custom edge types without to_g2o are documented to be skipped on export and are not generated here"]

EPS = 2.0**-52
BAD = ["rn-odo", "rn-lm", "se2-lm-offset", "se3-lm-no-offset-id", "se3-lm-conflicting-offset-ids"]


def _vals(g, n, extreme):
    out = []
    for _ in range(n):
        v, _tok = GT.gen_value(g, "extreme" if extreme else "moderate")
        out.append(float(v))
    return out


@S.composite
def strategy_(g):
    if g.rnd.random() < 0.002:
        return HG.gen_roundtrip(g)
    src = g.choice(["text", "prog", "prog", "bad"])
    cycles = g.choice([1, 1, 2, 3, 5])
    if src == "text":
        f = GT.gen_file(g, allow_custom=True, allow_junk=g.boolean())
        return {"src": "text", "file": f, "cycles": cycles, "edits": [g.choice(["none", "none", "offset", "offset-reassign", "vertex", "measurement", "information"]) for _ in range(cycles)], "keep_object": [g.boolean() for _ in range(cycles)]}
    rnd = g.rnd
    extreme = g.boolean()
    fb = GT.FileBuilder(g)
    dims = g.choice(["2d", "3d", "both"])
    verts = []
    bykind = {"se2": [], "r2": [], "se3": [], "r3": []}
    kinds = (["se2", "r2"] if dims in ("2d", "both") else []) + (["se3", "r3"] if dims in ("3d", "both") else [])
    for k in kinds:
        for _ in range(g.integer(1 if k in ("se2", "se3") else 0, 4)):
            vid = fb.new_id()
            if k == "r2":
                v = _vals(g, 2, extreme)
            elif k == "r3":
                v = _vals(g, 3, extreme)
            elif k == "se2":
                v = _vals(g, 2, extreme) + [g.angle()]
            else:
                v = _vals(g, 3, extreme) + g.unit_quat()
            verts.append({"id": vid, "p": {"k": k, "v": v}})
            bykind[k].append(vid)
    rnd.shuffle(verts)
    edges = []
    params = {}  # id -> offset values
    for _ in range(g.integer(0, 7)):
        t = rnd.choice(["odo2", "odo3", "lm2", "lm3", "lm3"])
        if t == "odo2" and len(bykind["se2"]) >= 2:
            i, j = rnd.sample(bykind["se2"], 2)
            edges.append({"t": "odo", "ids": [i, j], "z": {"k": "se2", "v": _vals(g, 2, False) + [g.angle()]}, "off": None, "info": fb.upper_triangle(3)[1]})
        elif t == "odo3" and len(bykind["se3"]) >= 2:
            i, j = rnd.sample(bykind["se3"], 2)
            edges.append({"t": "odo", "ids": [i, j], "z": {"k": "se3", "v": _vals(g, 3, False) + g.unit_quat()}, "off": None, "info": fb.upper_triangle(6)[1]})
        elif t == "lm2" and bykind["se2"] and bykind["r2"]:
            edges.append({"t": "lm", "ids": [rnd.choice(bykind["se2"]), rnd.choice(bykind["r2"])], "z": {"k": "r2", "v": _vals(g, 2, False)}, "off": {"k": "se2", "v": [0.0, 0.0, 0.0]}, "off_id": rnd.choice([0, 0, None, 3]), "info": fb.upper_triangle(2)[1]})
        elif t == "lm3" and bykind["se3"] and bykind["r3"]:
            if params and rnd.random() < 0.5:
                pid = rnd.choice(sorted(params))
            else:
                pid = rnd.randint(0, 30)
                if pid not in params:
                    params[pid] = _vals(g, 3, False) + g.unit_quat()
            edges.append({"t": "lm", "ids": [rnd.choice(bykind["se3"]), rnd.choice(bykind["r3"])], "z": {"k": "r3", "v": _vals(g, 3, False)}, "off": {"k": "se3", "v": list(params[pid])}, "off_id": pid, "info": fb.upper_triangle(3)[1]})
    if edges and g.choice([False, False, True]):
        # the same measurement listed twice (a repeated observation): two identical parallel edges are two edges
        import copy as _copy

        for _ in range(rnd.randint(1, 2)):
            edges.insert(rnd.randrange(len(edges) + 1), _copy.deepcopy(rnd.choice(edges)))
    if edges and g.choice([False, False, True]):
        # information handed over as an integer-dtype array (np.diag([...]) of whole-number weights), with entries in the upper half
        # of the dtype's range: the values are numbers like any other and must reach the file unchanged
        for e in edges:
            if rnd.random() < 0.5:
                dt = rnd.choice(["int64", "int32", "int16", "int8"])
                hi = int(np.iinfo(dt).max)
                n = len(e["info"])
                M = [[0] * n for _ in range(n)]
                for i in range(n):
                    M[i][i] = rnd.randint(hi // 2 + 1, hi)
                    for j in range(i + 1, n):
                        M[i][j] = M[j][i] = rnd.choice([0, 0, 1, -1, rnd.randint(-(hi // 4), hi // 4)])
                e["info"], e["info_dtype"] = M, dt
    case = {"src": src, "verts": verts, "edges": edges, "params": {str(k): v for k, v in params.items()}, "registered": g.choice(["all", "all", "none", "some"]), "cycles": cycles, "extreme": extreme}
    case["edits"] = [g.choice(["none", "none", "offset", "offset-reassign", "vertex", "measurement", "information"]) for _ in range(cycles)]
    case["keep_object"] = [g.boolean() for _ in range(cycles)]
    if rnd.random() < 0.3:
        case["extra_params2"] = {str(rnd.randint(0, 9)): _vals(g, 2, False) + [g.angle()]}
    if src == "bad":
        bad = g.choice(BAD)
        case["bad"] = bad
        used = set(v["id"] for v in verts)

        def nid():
            x = max(used) + 1
            used.add(x)
            return x

        if bad == "rn-odo":
            k = rnd.choice(["r2", "r3"])
            a, b = nid(), nid()
            n = R.PDIM[k]
            verts += [{"id": a, "p": {"k": k, "v": _vals(g, n, False)}}, {"id": b, "p": {"k": k, "v": _vals(g, n, False)}}]
            edges.append({"t": "odo", "ids": [a, b], "z": {"k": k, "v": _vals(g, n, False)}, "off": None, "info": fb.upper_triangle(n)[1]})
        elif bad == "rn-lm":
            k = rnd.choice(["r2", "r3"])
            a, b = nid(), nid()
            n = R.PDIM[k]
            verts += [{"id": a, "p": {"k": k, "v": _vals(g, n, False)}}, {"id": b, "p": {"k": k, "v": _vals(g, n, False)}}]
            edges.append({"t": "lm", "ids": [a, b], "z": {"k": k, "v": _vals(g, n, False)}, "off": {"k": k, "v": _vals(g, n, False)}, "off_id": 0, "info": fb.upper_triangle(n)[1]})
        elif bad == "se2-lm-offset":
            a, b = nid(), nid()
            verts += [{"id": a, "p": {"k": "se2", "v": _vals(g, 2, False) + [g.angle()]}}, {"id": b, "p": {"k": "r2", "v": _vals(g, 2, False)}}]
            offc = rnd.choice(["translation", "rotation", "both", "tiny"])
            off = [0.0, 0.0, 0.0]
            if offc in ("translation", "both"):
                off[0], off[1] = rnd.uniform(-2, 2), rnd.uniform(-2, 2)
            if offc in ("rotation", "both"):
                off[2] = rnd.uniform(-3, 3)
            if offc == "tiny":
                off[rnd.randrange(3)] = 1e-9
            edges.append({"t": "lm", "ids": [a, b], "z": {"k": "r2", "v": _vals(g, 2, False)}, "off": {"k": "se2", "v": off}, "off_id": 0, "info": fb.upper_triangle(2)[1]})
        else:
            a, b = nid(), nid()
            verts += [{"id": a, "p": {"k": "se3", "v": _vals(g, 3, False) + g.unit_quat()}}, {"id": b, "p": {"k": "r3", "v": _vals(g, 3, False)}}]
            if bad == "se3-lm-no-offset-id":
                edges.append({"t": "lm", "ids": [a, b], "z": {"k": "r3", "v": _vals(g, 3, False)}, "off": {"k": "se3", "v": _vals(g, 3, False) + g.unit_quat()}, "off_id": None, "info": fb.upper_triangle(3)[1]})
            else:
                pid = 77
                edges.append({"t": "lm", "ids": [a, b], "z": {"k": "r3", "v": _vals(g, 3, False)}, "off": {"k": "se3", "v": _vals(g, 3, False) + g.unit_quat()}, "off_id": pid, "info": fb.upper_triangle(3)[1]})
                edges.append({"t": "lm", "ids": [a, b], "z": {"k": "r3", "v": _vals(g, 3, False)}, "off": {"k": "se3", "v": _vals(g, 3, False) + g.unit_quat()}, "off_id": pid, "info": fb.upper_triangle(3)[1]})
    return case


def strategy(tier):
    return strategy_()


def summarise(case):
    if case["src"] == "huge":
        return case
    if case["src"] == "text":
        return {"src": "text", "cycles": case["cycles"], "text": GT.file_text(case["file"])[:1200]}
    return {"src": case["src"], "bad": case.get("bad"), "cycles": case["cycles"], "registered": case["registered"], "verts": case["verts"][:4], "edges": [{k: e[k] for k in ("t", "ids", "z", "off", "off_id") if k in e} for e in case["edges"][:4]], "n_verts": len(case["verts"]), "n_edges": len(case["edges"])}


def build_prog(case):
    verts = [gs.Vertex(v["id"], gs.mk_pose(v["p"])) for v in case["verts"]]
    edges = []
    shared_off = {}
    for e in case["edges"]:
        info = np.array(e["info"], dtype=float)
        if e.get("info_dtype"):
            info = np.array(e["info"], dtype=e["info_dtype"])
        if e["t"] == "odo":
            edges.append(gs.EdgeOdometry(list(e["ids"]), info, gs.mk_pose(e["z"])))
        else:
            edges.append(gs.EdgeLandmark(list(e["ids"]), info, gs.mk_pose(e["z"]), gs.mk_pose(e["off"]), offset_id=e.get("off_id")))
    g = gs.Graph(edges, verts)
    reg = case["registered"]
    params = {}
    items = sorted(case["params"].items(), key=lambda kv: int(kv[0]))
    for n, (pid, vals) in enumerate(items):
        if reg == "all" or (reg == "some" and n % 2 == 0):
            key = ("PARAMS_SE3OFFSET", int(pid))
            params[key] = G2OParameterSE3Offset(key, gs.mk_pose_kv("se3", vals))
    for pid, vals in case.get("extra_params2", {}).items():
        key = ("PARAMS_SE2OFFSET", int(pid))
        params[key] = G2OParameterSE2Offset(key, gs.mk_pose_kv("se2", vals))
    if params or reg == "all":
        g._g2o_params = params
    return g


def _bits_eq(a, b):
    return gs.bits(np.asarray(a, dtype=float)) == gs.bits(np.asarray(b, dtype=float))


def _angle_same(a, b):
    a, b = float(a), float(b)
    if not (-math.pi <= b <= math.pi):
        return False
    return XA.residual_mod_2pi(b, XA.frac(a)) <= 8 * EPS * (abs(a) + math.pi)


def _pose_same(ctx, sig, what, pa, pb, measurement=False):
    """pa: pose before export, pb: pose after import."""
    if type(pa) is not type(pb):
        return ctx.fail(sig, "%s: type %s became %s" % (what, type(pa).__name__, type(pb).__name__))
    k = gs.kind_of(pa)
    a, b = gs.stored(pa), gs.stored(pb)
    if k is None:
        if not _bits_eq(a, b):
            return ctx.fail(sig, "%s: %r became %r" % (what, a, b))
        return False
    n = R.PDIM[k]
    if not _bits_eq(a[:n], b[:n]):
        return ctx.fail(sig, "%s: translation %r became %r" % (what, a[:n], b[:n]))
    if k == "se2" and not _angle_same(a[2], b[2]):
        return ctx.fail(sig, "%s: angle %r became %r" % (what, a[2], b[2]))
    if k == "se3":
        if measurement:
            q = np.array(a[3:])
            nq = math.sqrt(math.fsum(x * x for x in a[3:]))
            want = q / nq * (1.0 if q[3] >= 0 else -1.0)
            if not np.allclose(np.array(b[3:]), want, rtol=4 * EPS, atol=1e-300):
                return ctx.fail(sig, "%s: quaternion %r became %r (expected +-q/|q|)" % (what, a[3:], b[3:]))
        elif not _bits_eq(a[3:], b[3:]):
            return ctx.fail(sig, "%s: quaternion %r became %r" % (what, a[3:], b[3:]))
    return False


def compare_graphs(ctx, ga, gb, sig="roundtrip"):
    """gb was obtained by exporting ga and importing the file.  Returns True if a failure was reported."""
    if len(ga._vertices) != len(gb._vertices) or len(ga._edges) != len(gb._edges):
        return ctx.fail(sig + ":count", "%d vertices / %d edges became %d / %d" % (len(ga._vertices), len(ga._edges), len(gb._vertices), len(gb._edges)))
    for i, (va, vb) in enumerate(zip(ga._vertices, gb._vertices)):
        if va.id != vb.id:
            return ctx.fail(sig + ":id", "vertex #%d id %r became %r" % (i, va.id, vb.id))
        if _pose_same(ctx, sig + ":vertex", "vertex #%d (id %r)" % (i, va.id), va.pose, vb.pose):
            return True
    for i, (ea, eb) in enumerate(zip(ga._edges, gb._edges)):
        if type(ea) is not type(eb):
            return ctx.fail(sig + ":edge-type", "edge #%d %s became %s" % (i, type(ea).__name__, type(eb).__name__))
        if list(ea.vertex_ids) != list(eb.vertex_ids):
            return ctx.fail(sig + ":id", "edge #%d ids %r became %r" % (i, ea.vertex_ids, eb.vertex_ids))
        ia, ib = np.asarray(ea.information, dtype=float), np.asarray(eb.information, dtype=float)
        if ia.shape != ib.shape or not _bits_eq(ia, ib):
            return ctx.fail(sig + ":information", "edge #%d information changed: %r -> %r" % (i, ia.tolist(), ib.tolist()))
        if isinstance(ea.estimate, np.ndarray):
            if _pose_same(ctx, sig + ":measurement", "edge #%d measurement" % i, ea.estimate, eb.estimate, measurement=isinstance(ea, gs.EdgeOdometry)):
                return True
        elif not _bits_eq([ea.estimate], [eb.estimate]):
            return ctx.fail(sig + ":measurement", "edge #%d measurement %r became %r" % (i, ea.estimate, eb.estimate))
        if isinstance(ea, gs.EdgeLandmark):
            if _pose_same(ctx, sig + ":offset", "edge #%d offset" % i, ea.offset, eb.offset):
                return True
            if isinstance(ea.offset, gs.PoseSE3) and ea.offset_id != eb.offset_id:
                return ctx.fail(sig + ":offset", "edge #%d offset id %r became %r" % (i, ea.offset_id, eb.offset_id))
    # parameters registered on the source graph survive
    pa, pb = ga._g2o_params or {}, gb._g2o_params or {}
    for key, p in pa.items():
        if key not in pb:
            return ctx.fail(sig + ":parameter", "parameter %r was lost" % (key,))
        if _pose_same(ctx, sig + ":parameter", "parameter %r" % (key,), p.value, pb[key].value):
            return True
    return False


def chi2_compare(ctx, ga, gb, sig="roundtrip:chi2"):
    with np.errstate(all="ignore"):
        ca, cb = float(ga.calc_chi2()), float(gb.calc_chi2())
        if not (math.isfinite(ca) and math.isfinite(cb)):
            ctx.event("chi2-nonfinite-skipped")
            return False
        tol = 0.0
        for e in ga._edges:
            if isinstance(e, gs.EdgeOdometry) and isinstance(e.estimate, gs.PoseSE3):
                eq = e.estimate - (e.vertices[1].pose - e.vertices[0].pose)
                if abs(float(eq[6])) < 1e-6:
                    # 180-degree residual: the sign of the rotational error is genuinely undefined there, so chi2 with
                    # translation-rotation cross terms is not a function of the physical graph at this measure-zero set
                    ctx.event("chi2-skipped:180deg-residual")
                    return False
            err = np.atleast_1d(np.array(e.calc_error(), dtype=float))
            S_ = max([float(np.max(np.abs(np.asarray(v.pose)[: len(v.pose.position)]))) for v in e.vertices] + [1.0])
            om = np.abs(np.asarray(e.information, dtype=float))
            ae = np.abs(err)
            de = 1e-14 * (1 + S_) * np.ones_like(err) + 1e-15 * ae
            tol += 1e-12 * float(ae @ om @ ae) + 2.0 * float(ae @ om @ de) + float(de @ om @ de)
        if not math.isfinite(tol):
            ctx.event("chi2-nonfinite-skipped")
            return False
    if not (abs(ca - cb) <= tol):
        return ctx.fail(sig, "chi2 %r became %r after the round trip (tol %.3e)" % (ca, cb, tol))
    return False


def files_stable(ctx, t1, t2):
    if t1 == t2:
        return False
    a, b = t1.split(), t2.split()
    if len(a) != len(b):
        return ctx.fail("file-not-stable", "files written in consecutive cycles differ in length")
    for x, y in zip(a, b):
        if x == y:
            continue
        try:
            fx, fy = float(x), float(y)
        except ValueError:
            return ctx.fail("file-not-stable", "token %r became %r in the next cycle" % (x, y))
        if not (abs(fx - fy) <= 1e-15 * max(abs(fx), abs(fy)) + 5e-324):
            return ctx.fail("file-not-stable", "number %r became %r in the next cycle" % (x, y))
    ctx.event("file-stable-up-to-last-bits")
    return False


def _edit_in_place(g, what, c):
    """Modify one stored array of the graph in place.  Returns True if something was edited."""
    d = 0.5 + 0.25 * c
    if what == "offset":
        for e0 in g._edges:
            if isinstance(e0, gs.EdgeLandmark) and isinstance(e0.offset, gs.PoseSE3):
                # change the offset with this id everywhere it is stored (once per distinct object), so that the graph
                # stays expressible (one offset per id)
                objs = {}
                for e in g._edges:
                    if isinstance(e, gs.EdgeLandmark) and isinstance(e.offset, gs.PoseSE3) and e.offset_id == e0.offset_id:
                        objs[id(e.offset)] = e.offset
                par = (g._g2o_params or {}).get(("PARAMS_SE3OFFSET", e0.offset_id))
                if par is not None:
                    objs[id(par.value)] = par.value
                for o in objs.values():
                    np.asarray(o)[0] += d
                return True
        return False
    if what == "offset-reassign":
        # a re-calibrated sensor offset: every edge with this id gets a NEW offset object; a parameter registered on the
        # graph (loaded from a file) still holds the old value, so the graph is now inconsistent - the export must either
        # refuse or write what the edges carry
        for e0 in g._edges:
            if isinstance(e0, gs.EdgeLandmark) and isinstance(e0.offset, gs.PoseSE3):
                new = e0.offset.copy()
                np.asarray(new)[1] -= d
                for e in g._edges:
                    if isinstance(e, gs.EdgeLandmark) and isinstance(e.offset, gs.PoseSE3) and e.offset_id == e0.offset_id:
                        e.offset = new
                return True
        return False
    if what == "vertex":
        if g._vertices:
            np.asarray(g._vertices[-1].pose)[0] += d
            return True
        return False
    if what == "measurement":
        for e in g._edges:
            if isinstance(e.estimate, np.ndarray):
                np.asarray(e.estimate)[0] += d
                return True
        return False
    if what == "information":
        for e in g._edges:
            arr = np.asarray(e.information)
            if arr.dtype.kind in "iu":
                arr[0, 0] = arr[0, 0] // 2 + 1  # an in-place edit that stays inside the integer dtype's range
            else:
                arr[0, 0] += d
            return True
    return False


def check(case, ctx):
    src = case["src"]
    ctx.event("source:" + src)
    cycles = case["cycles"]
    ctx.event("cycles:%d" % cycles)
    tmp = tempfile.mkdtemp(prefix="vf_c13_")
    try:
        if src == "huge":
            return HG.check_roundtrip(case, ctx, tmp)
        if src == "text":
            p0 = os.path.join(tmp, "src.g2o")
            with open(p0, "w", newline="") as f:
                f.write(GT.file_text(case["file"]))
            if case.get("scratch_load_first", True):
                # an earlier load of the same file whose result was edited in place and thrown away (a user trying a different
                # sensor mounting on a scratch copy) must not leak into later loads
                gscratch, _ = load_with_log(gs.Graph.from_g2o, p0, custom_edge_types=list(GT.CUSTOM_TYPES))
                for e in gscratch._edges:
                    off = getattr(e, "offset", None)
                    if isinstance(off, np.ndarray):
                        np.asarray(off)[...] = np.asarray(off) * 0.5 + 0.25
                    np.asarray(e.information)[...] = np.asarray(e.information) * 3.0
                del gscratch
            g0, _ = load_with_log(gs.Graph.from_g2o, p0, custom_edge_types=list(GT.CUSTOM_TYPES))
        else:
            g0 = build_prog(case)
        # classification
        has_off = any(isinstance(e, gs.EdgeLandmark) and isinstance(e.offset, gs.PoseSE3) for e in g0._edges)
        wneg = any(isinstance(v.pose, gs.PoseSE3) and v.pose[6] < 0 for v in g0._vertices) or any(isinstance(e.estimate, gs.PoseSE3) and e.estimate[6] < 0 for e in g0._edges)
        allnums = np.concatenate([np.asarray(v.pose, dtype=float) for v in g0._vertices] + [np.zeros(1)])
        outside = bool(np.any((np.abs(allnums) > 1e6) | ((np.abs(allnums) < 1e-6) & (allnums != 0))))
        if has_off:
            ctx.event("landmark-edge-with-offset")
        if any(np.asarray(e.information).dtype.kind == "i" for e in g0._edges):
            ctx.event("integer-dtype-information")
        if wneg:
            ctx.event("w<0")
        if outside:
            ctx.event("number-outside-1e-6..1e6")
        ctx.nontrivial(has_off or wneg or outside or cycles >= 2)

        bad = case.get("bad")
        texts = []
        cur = g0
        edited = False
        from_import = []  # from_import[c]: the graph exported in cycle c is the one imported in cycle c-1
        for c in range(cycles):
            from_import.append(c >= 1 and not (case.get("keep_object") or [False] * cycles)[c - 1])
            path = os.path.join(tmp, "c%d.g2o" % c)
            ed = (case.get("edits") or ["none"] * cycles)[c]
            if c >= 1 and ed != "none" and not bad:
                # history: the graph that was just imported is modified IN PLACE (what a user editing a loaded graph
                # does), then exported again: the file must carry the current numbers
                if _edit_in_place(cur, ed, c):
                    ctx.event("in-place-edit:" + ed)
                    edited = True
            try:
                cur.to_g2o(path)
            except Exception as exc:  # noqa: BLE001
                if ed == "offset-reassign" and c >= 1 and isinstance(exc, ValueError):
                    ctx.event("refused:offset-conflicts-with-registered-parameter")
                    return
                if bad and c == 0:
                    ctx.event("refused:" + bad)
                    return
                if isinstance(exc, NotImplementedError) and src != "text" and c == 0 and False:
                    return
                return ctx.fail("export-raised", "to_g2o raised %s: %s on expressible content (cycle %d)" % (type(exc).__name__, exc, c))
            with open(path, newline="") as f:
                texts.append(f.read())
            try:
                nxt, _ = load_with_log(gs.Graph.from_g2o, path, custom_edge_types=list(GT.CUSTOM_TYPES))
            except Exception as exc:  # noqa: BLE001
                sig = "written-file-does-not-load" + (":" + bad if bad else "")
                return ctx.fail(sig, "the file written by to_g2o cannot be imported: %s: %s" % (type(exc).__name__, exc))
            sig = "roundtrip" + (":" + bad if bad else "")
            if compare_graphs(ctx, cur, nxt, sig):
                return
            if chi2_compare(ctx, cur, nxt, sig + ":chi2"):
                return
            if c >= 2 and not edited and from_import[c] and from_import[c - 1]:
                if files_stable(ctx, texts[c - 1], texts[c]):
                    return
            # the next cycle exports either the graph that was just imported or - again - the same graph object that has
            # already been exported (an export must not leave anything behind that a later export would reuse)
            if not (case.get("keep_object") or [False] * cycles)[c]:
                cur = nxt
            else:
                ctx.event("same-object-exported-again")
        if bad:
            ctx.event("written-and-equal:" + bad)
    finally:
        shutil.rmtree(tmp, ignore_errors=True)
