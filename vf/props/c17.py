"""C17 - equals is a sound, total tolerance comparison."""
import copy

import numpy as np

from .. import customedges as CE, edgecases as E, graphgen as GG, gs, refmodel as R, strategies as S

ID = "C17"
RULE = (
    "Pairs (x, y) at four levels - pose (4 types), vertex, edge (odometry 4 kinds, landmark 4 kinds, custom unary/binary/ternary), graph - with a "
    "drawn relation: copy; one stored numeric component (pose coordinate, measurement, offset or information entry) changed by f*tol*max(|x|,tol) "
    "with f in [1e-12,1e-3] (far below) or [1e3,1e6] (far above), by direct component assignment on a copy; a structural difference (id, pose "
    "type with the same numbers where the sizes allow it, vertex count, vertex ids, edge class, information shape, measurement type, offset type, "
    "offset id, graph size, vertex or edge order); or a mixed-type pair drawn independently. tol in [1e-12,1e-2]. Oracle: far below or copy => "
    "True in both directions; far above or structural => False in both directions; never an exception. Non-trivial = mixed-type/structural pair "
    "or a single-component perturbation."
)
BUDGET = {"quick": 16 * 4000, "thorough": 16 * 60000}
TOLERANCES = {"band": "perturbations are a factor >= 1e3 away from the tolerance on either side, so rounding cannot flip the expected answer"}
ASSUMPTIONS = ["x.equals(y) is only required for x, y of the same category (pose/pose, vertex/vertex, edge/edge, graph/graph)"]

LEVELS = ["pose", "pose", "vertex", "edge", "edge", "edge", "graph"]
RELS = ["copy", "below", "below", "above", "above", "structural", "structural", "mixed"]


@S.composite
def strategy_(g):
    level = g.choice(LEVELS)
    rel = g.choice(RELS)
    tol = 10.0 ** g.rnd.uniform(-12, -2)
    f = 10.0 ** (g.rnd.uniform(-12, -3) if rel == "below" else g.rnd.uniform(3, 6))
    case = {"level": level, "rel": rel, "tol": tol, "f": f, "sel": [g.rnd.randrange(10**6) for _ in range(4)]}
    # structurally different objects may hold the very same pose / information / measurement OBJECTS (not just equal values)
    case["share_objects"] = g.choice([False, True])
    s = g.choice([0.0, 1.0, 10.0, 1e3])
    if level in ("pose", "vertex"):
        k = g.kind()
        case["a"] = g.pose(k, s=s)
        case["ida"] = g.ids(1)[0]
        case["b"] = g.pose(g.kind(), s=s)  # for mixed pairs
        case["struct"] = g.choice(["id", "type-same-numbers", "type", "subclass"]) if level == "vertex" else g.choice(["type-same-numbers", "type", "subclass"])
        # R^n poses keep a view of the caller's float64 array: x and y may be two columns of one point table (one buffer)
        case["table"] = g.choice([False, False, True])
        # history: the pair is compared once, then BOTH R^n poses are rescaled in place (through the arrays they are views of) and
        # compared again - the verdict is about the current numbers
        case["rescale"] = g.choice([None, None, 1e3, 1e-3, 1e6])
    elif level == "edge":
        kind = g.choice(["builtin", "builtin", "custom"])
        if kind == "builtin":
            case["ea"] = E.gen_edge(g, s=s, info_kind=g.choice(["spd", "ident", "diag"]), max_cond=1e2)
            case["ea"]["off_id"] = g.choice([0, 0, None, 5])
            idc = g.choice(["01", "small", "1e5..1e7", "huge"])
            if idc != "01":
                a0 = {"small": g.rnd.randint(-50, 50), "1e5..1e7": g.rnd.randint(10**5, 10**7), "huge": g.rnd.randint(2**62, 2**70)}[idc]
                case["ea"]["edge_ids"] = [a0, a0 + g.rnd.choice([1, 2, 1000, -1])]
        else:
            tag = g.choice(["prior", "dist", "mid"])
            base = g.choice(["r2", "r3", "se2", "se3"])
            n = {"prior": R.CDIM[base], "dist": 1, "mid": R.PDIM[base]}[tag]
            z = g.pose(base, s=s) if tag == "prior" else ([g.rnd.uniform(0, 3)] if tag == "dist" else g.vec(n, s=max(s, 1.0)))
            case["ea"] = {"custom": tag, "base": base, "ids": g.ids(CE.ARITY[tag]), "z": z, "info": g.sym_matrix(n, max_cond=1e2, kind="spd")}
        # the information of x may be handed over as an integer-dtype array (e.g. np.diag([100, 100, 1000]))
        case["int_info"] = g.choice([False, False, False, True])
        if case["int_info"]:
            nn = len(case["ea"]["info"])
            dd = [float(g.rnd.randint(1, 1000)) for _ in range(nn)]
            case["ea"]["info"] = [[dd[i] if i == j else 0.0 for j in range(nn)] for i in range(nn)]
        case["eb"] = E.gen_edge(g, s=s, info_kind="spd", max_cond=1e2)  # for mixed pairs
        case["eb"]["off_id"] = 0
        case["struct"] = g.choice(["ids", "ids-count", "class", "subclass", "info-shape", "estimate-type", "offset-type", "offset-id", "estimate-pose-type"])
    else:
        nz = g.choice([0.05, 1e-3, 1e-5, 1e-7])
        case["g"] = GG.gen(g, n_pose=(2, 5), n_lm=(0, 2), n_loops=(0, 2), conds=(1.0, 1e2), noise=(nz, nz), pert=(g.choice([0.3, 0.0]),) * 2, world=(1.0, 10.0, 100.0), features=("parallel", "reversed", "permute", "ids", "custom", "quat-signs", "lm_odo", "pure-translation-steps"), custom_flavour="num")
        case["struct"] = g.choice(["drop-edge", "add-vertex", "edge-for-vertex", "swap-vertices", "swap-edges", "vertex-id", "edge-class"])
        case["pre"] = g.choice(["none", "none", "chi2-both", "chi2-one", "optimize-both"])
    return case


def strategy(tier):
    return strategy_()


def summarise(case):
    c = {k: v for k, v in case.items() if k not in ("g",)}
    if "g" in case:
        c["graph"] = GG.summarise(case["g"])
    return c


# ----------------------------------------------------------------------------- builders
def _build_edge(d):
    if "custom" in d:
        z = d["z"]
        est = gs.mk_pose(z) if isinstance(z, dict) else (float(z[0]) if d["custom"] == "dist" else np.array(z, dtype=float))
        return CE.CLASSES[(d["custom"], "num")](list(d["ids"]), np.array(d["info"], dtype=float), est)
    e, v1, v2 = E.build_edge(d, ids=tuple(d.get("edge_ids", (0, 1))))
    if isinstance(e, gs.EdgeLandmark):
        e.offset_id = d.get("off_id", 0)
    return e


def _numeric_slots(level, obj):
    """List of (name, array) for perturbable stored numeric components of obj (made writable first)."""
    if level == "edge" and not np.asarray(obj.information).flags.writeable:
        obj.information = np.array(obj.information)
    slots = []
    if level == "pose":
        slots.append(("pose", obj))
    elif level == "vertex":
        slots.append(("pose", obj.pose))
    elif level == "edge":
        slots.append(("information", obj.information))
        if isinstance(obj.estimate, np.ndarray):
            slots.append(("estimate", obj.estimate))
        if isinstance(obj, gs.EdgeLandmark):
            slots.append(("offset", obj.offset))
    return slots


def _perturb(arr, idx, f, tol):
    """Add f*tol*max(|arr|, tol) to one stored component of `arr`, in place (any memory layout)."""
    a = np.asarray(arr)
    nrm = float(np.linalg.norm(a.reshape(-1)))
    delta = f * tol * max(nrm, tol)
    where = np.unravel_index(idx % a.size, a.shape)
    a[where] += delta
    return delta


def _edges_far_apart(ea, eb, tol):
    """True iff the two edge descriptions differ structurally or in some numeric block by >= 1e3*tol (relative norm)."""
    if ea["t"] != eb["t"] or ea["ids"] != eb["ids"] or ea.get("fl") != eb.get("fl"):
        return True

    def arr(x):
        if x is None:
            return None
        return np.array(x["v"] if isinstance(x, dict) else x, dtype=float).reshape(-1)

    for key in ("info", "z", "off"):
        a, b = arr(ea.get(key)), arr(eb.get(key))
        if (a is None) != (b is None):
            return True
        if a is None:
            continue
        if a.shape != b.shape:
            return True
        if float(np.linalg.norm(a - b)) >= 1e3 * tol * max(float(np.linalg.norm(a)), float(np.linalg.norm(b)), tol):
            return True
    return False


def _pre_queries(case, ctx, x, y):
    """History before the comparison (graph level): equals must depend on the compared contents only."""
    pre = case.get("pre", "none")
    if pre == "none":
        return
    ctx.event("pre:" + pre)
    if pre == "chi2-both":
        x.calc_chi2()
        y.calc_chi2()
    elif pre == "chi2-one":
        x.calc_chi2()
    elif pre == "optimize-both":
        # zero iterations worth of change is not possible; evaluate chi2/gradient/Hessian through the public API on clones'
        x.calc_chi2()
        y.calc_chi2()
        for e in list(x._edges)[:2] + list(y._edges)[:2]:
            e.calc_chi2_gradient_hessian()


def _expect(ctx, level, x, y, tol, want, what):
    for a, b, d in ((x, y, "x.equals(y)"), (y, x, "y.equals(x)")):
        try:
            r = a.equals(b, tol)
        except Exception as exc:  # noqa: BLE001
            return ctx.fail("equals-raised:%s" % level, "%s raised %s: %s (%s)" % (d, type(exc).__name__, exc, what))
        if bool(r) != want:
            return ctx.fail("equals-wrong:%s:%s" % (level, "false-negative" if want else "false-positive"), "%s returned %r, expected %r (%s, tol=%g)" % (d, r, want, what, tol))
    return False


def check(case, ctx):
    level, rel, tol, f = case["level"], case["rel"], case["tol"], case["f"]
    sel = case["sel"]
    ctx.event("level:" + level)
    ctx.event("rel:" + rel)
    ctx.nontrivial(rel != "copy")

    if level in ("pose", "vertex"):
        mk = (lambda d: gs.mk_pose(d)) if level == "pose" else (lambda d: gs.Vertex(case["ida"], gs.mk_pose(d)))
        x = mk(case["a"])
        if rel in ("copy", "below", "above"):
            y = mk(case["a"])
            if rel != "copy":
                name, arr = _numeric_slots(level, y)[0]
                _perturb(arr, sel[0], f, tol)
            if case.get("table") and case["a"]["k"] in ("r2", "r3"):
                # the same two value sets, stored as interleaved columns of one (n x 2) table that the poses are views of
                ctx.event("poses-are-views-of-one-buffer")
                px, py = (x, y) if level == "pose" else (x.pose, y.pose)
                table = np.empty((len(px), 2), dtype=np.float64)
                table[:, 0], table[:, 1] = np.asarray(px), np.asarray(py)
                cls_ = gs.CLS[case["a"]["k"]]
                vx, vy = cls_(table[:, 0]), cls_(table[:, 1])
                if not (np.shares_memory(vx, table) and np.shares_memory(vy, table)):
                    ctx.event("buffer-view-not-kept")
                if level == "pose":
                    x, y = vx, vy
                else:
                    x, y = gs.Vertex(case["ida"], vx), gs.Vertex(case["ida"], vy)
            px, py = (x, y) if level == "pose" else (x.pose, y.pose)
            nrm = min(float(np.linalg.norm(np.asarray(px))), float(np.linalg.norm(np.asarray(py))))
            # (the comparison is relative to |pose| only while |pose| > tol: the rescaling must stay inside that regime)
            if case.get("rescale") and case["a"]["k"] in ("r2", "r3") and nrm * min(1.0, case["rescale"]) > 10 * tol:
                ctx.event("rescaled-in-place-after-a-first-comparison")
                x.equals(y, tol), y.equals(x, tol)
                np.asarray(px)[...] *= case["rescale"]
                np.asarray(py)[...] *= case["rescale"]
            return _expect(ctx, level, x, y, tol, rel != "above", "%s of %s" % (rel, case["a"]["k"]))
        if rel == "mixed":
            y = mk(case["b"])
            if case["b"]["k"] == case["a"]["k"]:
                ctx.event("mixed:same-type")
                return  # same type drawn: nothing is claimed for an arbitrary pair
            ctx.event("mixed:%s-vs-%s" % tuple(sorted([case["a"]["k"], case["b"]["k"]])))
            return _expect(ctx, level, x, y, tol, False, "%s vs %s" % (case["a"]["k"], case["b"]["k"]))
        st = case["struct"]
        if st == "id":
            y = gs.Vertex(case["ida"] + 1 + sel[1] % 5, x.pose if case.get("share_objects") else gs.mk_pose(case["a"]))
            if case.get("share_objects"):
                ctx.event("struct:shared-member-objects")
            return _expect(ctx, level, x, y, tol, False, "different id" + (", one shared pose object" if case.get("share_objects") else ""))
        k = case["a"]["k"]
        if st == "subclass":
            Sub = type("Derived" + gs.CLS[k].__name__, (gs.CLS[k],), {})
            base = gs.mk_pose(case["a"])
            p2 = np.array(base).view(Sub)
            y = p2 if level == "pose" else gs.Vertex(case["ida"], p2)
            ctx.event("struct:subclass")
            return _expect(ctx, level, x, y, tol, False, "%s vs a class derived from it, identical numbers" % k)
        if st == "type-same-numbers" and k in ("se2", "r3"):
            k2 = "r3" if k == "se2" else "se2"
            vals = gs.stored(gs.mk_pose(case["a"]))
            p2 = gs.mk_pose_exact(k2, vals)
            y = p2 if level == "pose" else gs.Vertex(case["ida"], p2)
            ctx.event("struct:type-same-numbers")
            return _expect(ctx, level, x, y, tol, False, "%s vs %s with identical numbers" % (k, k2))
        k2 = [kk for kk in ("r2", "r3", "se2", "se3") if kk != k][sel[1] % 3]
        p2 = gs.mk_pose_kv(k2, list(R.identity(k2)))
        vals = gs.stored(gs.mk_pose(case["a"]))
        arr = np.asarray(p2)
        m = min(len(arr), len(vals))
        arr[:m] = vals[:m]
        y = p2 if level == "pose" else gs.Vertex(case["ida"], p2)
        ctx.event("struct:type")
        return _expect(ctx, level, x, y, tol, False, "%s vs %s" % (k, k2))

    if level == "edge":
        x = _build_edge(case["ea"])
        if case.get("int_info"):
            x.information = np.array(x.information).astype(np.int64)
            ctx.event("integer-dtype-information")
        if rel in ("copy", "below", "above"):
            y = _build_edge(case["ea"])
            if rel != "copy":
                slots = _numeric_slots("edge", y)
                name, arr = slots[sel[0] % len(slots)]
                _perturb(arr, sel[1], f, tol)
                ctx.event("perturbed:" + name)
                return _expect(ctx, level, x, y, tol, rel != "above", "%s in %s of %s" % (rel, name, type(x).__name__))
            return _expect(ctx, level, x, y, tol, True, "copy of %s" % type(x).__name__)
        if rel == "mixed":
            y = _build_edge(case["eb"])
            same = type(x) is type(y) and ("custom" not in case["ea"]) and case["ea"]["ek"] == case["eb"]["ek"]
            if same:
                ctx.event("mixed:same-kind")
                return
            ctx.event("mixed:%s-vs-%s" % (type(x).__name__, type(y).__name__))
            if type(x) is type(y):
                # same class, different pose kinds: the measurement / offset types or the information shapes differ
                pass
            return _expect(ctx, level, x, y, tol, False, "%s(%s) vs %s(%s)" % (type(x).__name__, case["ea"].get("ek", case["ea"].get("custom")), type(y).__name__, case["eb"]["ek"]))
        st = case["struct"]
        y = _build_edge(case["ea"])
        ctx.event("struct:" + st)
        if case.get("share_objects") and st in ("ids", "ids-count", "offset-id", "info-shape", "estimate-type", "estimate-pose-type", "offset-type"):
            # y holds x's own member objects wherever the structural change below does not replace them
            ctx.event("struct:shared-member-objects")
            y.information = x.information
            y.estimate = x.estimate
            if isinstance(x, gs.EdgeLandmark):
                y.offset = x.offset
        if st == "ids":
            y.vertex_ids = list(y.vertex_ids)
            y.vertex_ids[sel[1] % len(y.vertex_ids)] += 1 + sel[2] % 3
        elif st == "ids-count":
            y.vertex_ids = list(y.vertex_ids) + [max(y.vertex_ids) + 1]
        elif st == "class":
            d = case["ea"]
            if "custom" in d:
                other = {"prior": "dist", "dist": "prior", "mid": "eqstep"}[d["custom"]]
                y = CE.CLASSES[(other, "num")](list(x.vertex_ids), np.array(x.information), x.estimate)
            elif isinstance(x, gs.EdgeOdometry):
                y = gs.EdgeLandmark(list(x.vertex_ids), np.array(x.information), x.estimate.copy(), x.estimate.copy(), offset_id=0)
            else:
                y = gs.EdgeOdometry(list(x.vertex_ids), np.array(x.information), x.estimate.copy())
        elif st == "subclass":
            # an otherwise identical edge whose class is derived from x's class: a different type
            Sub = type("Derived" + type(x).__name__, (type(x),), {})
            if isinstance(x, gs.EdgeLandmark):
                y = Sub(list(x.vertex_ids), np.array(x.information), x.estimate.copy(), x.offset.copy(), offset_id=x.offset_id)
            else:
                est = x.estimate.copy() if isinstance(x.estimate, np.ndarray) else x.estimate
                y = Sub(list(x.vertex_ids), np.array(x.information), est)
        elif st == "info-shape":
            n = np.asarray(y.information).shape[0]
            y.information = np.eye(n + 1)
            y.information[:n, :n] = x.information
        elif st == "estimate-type":
            if isinstance(x.estimate, np.ndarray) and gs.kind_of(x.estimate):
                y.estimate = np.array(x.estimate)  # plain ndarray instead of a pose
            elif isinstance(x.estimate, np.ndarray):
                kk = {2: "r2", 3: "r3"}.get(len(x.estimate))
                if kk is None:
                    return
                y.estimate = gs.mk_pose_exact(kk, np.asarray(x.estimate))
            else:
                return
        elif st == "estimate-pose-type":
            kk = gs.kind_of(x.estimate) if isinstance(x.estimate, np.ndarray) else None
            if kk not in ("se2", "r3"):
                return
            y.estimate = gs.mk_pose_exact("r3" if kk == "se2" else "se2", gs.stored(x.estimate))
        elif st == "offset-type":
            if not isinstance(x, gs.EdgeLandmark):
                return
            kk = gs.kind_of(x.offset)
            if kk in ("se2", "r3"):
                y.offset = gs.mk_pose_exact("r3" if kk == "se2" else "se2", gs.stored(x.offset))
            else:
                y.offset = gs.mk_pose_kv("r2" if kk != "r2" else "r3", [0.0] * (2 if kk != "r2" else 3))
        elif st == "offset-id":
            if not isinstance(x, gs.EdgeLandmark):
                return
            y.offset_id = (x.offset_id + 1) if x.offset_id is not None else 0
        return _expect(ctx, level, x, y, tol, False, "structural difference %s on %s" % (st, type(x).__name__))

    # ---- graph level
    gcase = case["g"]
    x = GG.build(gcase)
    if rel in ("copy", "below", "above", "mixed"):
        y = GG.build(gcase)
        if rel in ("below", "above"):
            pool = [("vertex", v) for v in y._vertices] + [("edge", e) for e in y._edges]
            lvl, obj = pool[sel[0] % len(pool)]
            slots = _numeric_slots(lvl, obj)
            name, arr = slots[sel[1] % len(slots)]
            _perturb(arr, sel[2], f, tol)
            ctx.event("perturbed:%s.%s" % (lvl, name))
            _pre_queries(case, ctx, x, y)
            return _expect(ctx, level, x, y, tol, rel == "below", "%s in one %s %s of a graph (after %s)" % (rel, lvl, name, case.get("pre", "none")))
        _pre_queries(case, ctx, x, y)
        return _expect(ctx, level, x, y, tol, True, "copy of a graph")
    st = case["struct"]
    c2 = copy.deepcopy(gcase)
    ctx.event("struct:" + st)
    if st == "drop-edge":
        if len(c2["edges"]) < 1:
            return
        c2["edges"].pop(sel[0] % len(c2["edges"]))
    elif st == "add-vertex":
        nid = max(v["id"] for v in c2["verts"]) + 1
        c2["verts"].append({"id": nid, "p": copy.deepcopy(c2["verts"][0]["p"]), "fixed": False, "truth": [], "role": "pose"})
    elif st == "edge-for-vertex":
        # the same total number of objects, split differently: the LAST edge dropped, one vertex appended
        if len(c2["edges"]) < 1:
            return
        last = len(c2["edges"]) - 1
        if any(e.get("same_as") == last for e in c2["edges"]):
            return
        c2["edges"].pop()
        nid = max(v["id"] for v in c2["verts"]) + 1
        c2["verts"].append({"id": nid, "p": copy.deepcopy(c2["verts"][0]["p"]), "fixed": False, "truth": [], "role": "pose"})
    elif st == "swap-vertices":
        if len(c2["verts"]) < 2:
            return
        i = sel[0] % (len(c2["verts"]) - 1)
        c2["verts"][i], c2["verts"][i + 1] = c2["verts"][i + 1], c2["verts"][i]
    elif st == "swap-edges":
        if len(c2["edges"]) < 2:
            return
        i = sel[0] % (len(c2["edges"]) - 1)
        if not _edges_far_apart(c2["edges"][i], c2["edges"][i + 1], tol):
            ctx.event("skipped:swapped-edges-not-far-apart")
            return  # e.g. noise-free parallel edges: swapping (nearly) identical edges legitimately gives an equal graph
        c2["edges"][i], c2["edges"][i + 1] = c2["edges"][i + 1], c2["edges"][i]
    elif st == "vertex-id":
        old = c2["verts"][sel[0] % len(c2["verts"])]["id"]
        new = max(v["id"] for v in c2["verts"]) + 7
        for v in c2["verts"]:
            if v["id"] == old:
                v["id"] = new
        for e in c2["edges"]:
            e["ids"] = [new if i == old else i for i in e["ids"]]
    y = GG.build(c2)
    if st == "edge-class":
        # replace one built-in odometry edge by a custom relative-pose edge with the same numbers (or vice versa a landmark edge)
        for i, e in enumerate(y._edges):
            if isinstance(e, gs.EdgeOdometry):
                y._edges[i] = CE.CLASSES[("relpose", "num")](list(e.vertex_ids), e.information, e.estimate, e.vertices)
                break
            if isinstance(e, gs.EdgeLandmark):
                ne = gs.EdgeOdometry(list(e.vertex_ids), e.information, e.estimate, e.vertices)
                y._edges[i] = ne
                break
        else:
            return
    if st != "edge-class":  # (the edge swapped in there bypasses validation and need not be evaluable)
        _pre_queries(case, ctx, x, y)
    return _expect(ctx, level, x, y, tol, False, "structural difference %s between graphs" % st)
