"""C15 - queries are pure; optimize changes only vertex poses."""
import os
import shutil
import tempfile

import numpy as np

from .. import customedges as CE, graphcheck as GC, graphgen as GG, gs, refmodel as R, strategies as S
from graphslam.edge.base_edge import BaseEdge

ID = "C15"
RULE = (
    "Histories (model-based, generated as operation programs that shrink as one value): a generated graph of any family with built-in edges, "
    "numeric-Jacobian custom edges (unary prior, binary relative-pose / distance / range, ternary midpoint) and *shared objects on purpose* (one "
    "estimate / information / offset object reused by several edges; a vertex pose object that is also another vertex's pose or an edge's estimate / offset object), then up to 50 operations drawn from: edge.calc_error, edge.calc_chi2, "
    "graph.calc_chi2, calc_jacobians (analytic), BaseEdge.calc_jacobians (numeric fallback), calc_chi2_gradient_hessian, equals (pose / vertex / "
    "edge / graph against clones), to_g2o (strings and file export), pose operators and all Jacobian methods on poses taken from the graph, copy "
    "followed by mutation of the copy, optimize(k), and a fresh-graph differential (every query answers bit-identically on a graph rebuilt from the current state). Invariant after every step: a bit-pattern snapshot of every pose, estimate, offset, "
    "information matrix, id, vertex_ids, fixed flag and object identity equals the model snapshot (the model is updated only by optimize: vertex "
    "poses replaced, first fixed flag set iff asked); every query is issued twice and must return bit-identical values. Non-trivial = the history "
    "contains a numeric-Jacobian call between two optimizer runs, or the graph has a shared object. A quarter of the graphs carry a free vertex that no edge refers to (singular solve; flags and everything but poses must still be unchanged)."
)
BUDGET = {"quick": 16 * 300, "thorough": 16 * 4000}
TOLERANCES = {"state": "bitwise (float64 bit patterns, ids, flags, object identity)", "repeated query": "bitwise identical return values"}
ASSUMPTIONS = ["optimize() is allowed to rebind vertex.pose objects; everything else must keep identity and bits"]

OPS = [
    "edge.calc_error",
    "edge.calc_chi2",
    "graph.calc_chi2",
    "edge.calc_jacobians",
    "edge.numeric_jacobians",
    "edge.numeric_jacobians",
    "edge.calc_chi2_gradient_hessian",
    "equals",
    "to_g2o",
    "pose.ops",
    "pose.jacobians",
    "pose.copy_mutate",
    "optimize",
    "optimize",
    "fresh-differential",
    "fresh-differential",
]


@S.composite
def strategy_(g):
    case = GG.gen(g, n_pose=(2, 6), n_lm=(0, 3), n_loops=(0, 3), conds=(1.0, 1e2), noise=(0.05, 0.05), pert=(0.3, 0.3), custom_flavour="num")
    rnd = g.rnd
    # extra numeric custom edges (distance / range need distinct positions; the generator's world guarantees that generically)
    nv = len(case["verts"])
    ids = [v["id"] for v in case["verts"]]
    if g.boolean() and nv >= 2:
        i, j = rnd.sample(range(nv), 2)
        tag = g.choice(["dist", "range"])
        if tag == "range" and case["verts"][i]["role"] != "pose":
            # the range edge measures in the frame of its first vertex, which must be a pose of the base type
            i, j = (j, i) if case["verts"][j]["role"] == "pose" else (i, j)
            if case["verts"][i]["role"] != "pose":
                tag = "dist"
        case["edges"].append({"t": tag, "fl": "num", "ids": [ids[i], ids[j]], "z": [rnd.uniform(0.5, 3.0)], "off": None, "info": [[rnd.uniform(0.5, 5.0)]]})
    # shared objects: edge i aliases edge j's information / estimate / offset (values are made equal first)
    share = []
    ne = len(case["edges"])
    if ne >= 2 and g.boolean():
        for _ in range(rnd.randint(1, 3)):
            i, j = rnd.sample(range(ne), 2)
            ei, ej = case["edges"][i], case["edges"][j]
            what = rnd.choice(["info", "z", "off"])
            if what == "info" and np.array(ei["info"]).shape == np.array(ej["info"]).shape:
                ei["info"] = ej["info"]
                share.append([i, j, "info"])
            elif what == "z" and ei["t"] == ej["t"] and isinstance(ei["z"], dict) and isinstance(ej["z"], dict) and ei["z"]["k"] == ej["z"]["k"]:
                ei["z"] = ej["z"]
                share.append([i, j, "z"])
            elif what == "off" and ei.get("off") and ej.get("off") and ei["off"]["k"] == ej["off"]["k"]:
                ei["off"] = ej["off"]
                share.append([i, j, "off"])
    # pose objects shared on purpose: a vertex whose pose object is also another vertex's pose (all unknowns initialised
    # from one `origin` object) or an edge's estimate / offset object (the values are made equal first)
    vshare = []
    if g.choice([False, False, True]):
        for _ in range(rnd.randint(1, 2)):
            what = rnd.choice(["vertex", "estimate", "offset"])
            i = rnd.randrange(nv)
            vi = case["verts"][i]
            if what == "vertex":
                cands = [j for j in range(nv) if j != i and case["verts"][j]["p"]["k"] == vi["p"]["k"]]
                if cands:
                    j = rnd.choice(cands)
                    vi["p"] = dict(case["verts"][j]["p"])
                    vshare.append(["vertex", i, j])
            elif what == "estimate":
                cands = [j for j, e in enumerate(case["edges"]) if isinstance(e["z"], dict) and e["z"]["k"] == vi["p"]["k"]]
                if cands:
                    j = rnd.choice(cands)
                    vi["p"] = dict(case["edges"][j]["z"])
                    vshare.append(["estimate", i, j])
            else:
                cands = [j for j, e in enumerate(case["edges"]) if e.get("off") and e["off"]["k"] == vi["p"]["k"]]
                if cands:
                    j = rnd.choice(cands)
                    vi["p"] = dict(case["edges"][j]["off"])
                    vshare.append(["offset", i, j])
    # two landmark edges whose sensor offsets (same parameter id) agree to ~1e-9 but not bitwise: an export must either refuse or
    # write them as they are - it never edits an edge
    lms = [i for i, e in enumerate(case["edges"]) if e["t"] == "lm" and e.get("off") and e["off"]["k"] == "se3"]
    if len(lms) >= 2 and g.choice([False, True]):
        i, j = rnd.sample(lms, 2)
        off = {"k": "se3", "v": list(case["edges"][i]["off"]["v"])}
        off["v"][rnd.randrange(3)] += rnd.choice([1e-9, -1e-9, 1e-12])
        case["edges"][j]["off"] = off
        case["meta"]["near_equal_offsets"] = True
    # SE(3) vertex poses as they come from a hand-written .g2o file (the loader does not normalise vertex quaternions): a few
    # significant digits only, or scaled slightly off unit norm - purity does not depend on the norm
    case["denorm"] = False
    if case["base"] == "se3" and g.choice([False, False, True]):
        case["denorm"] = True
        for v in case["verts"]:
            if v["p"]["k"] == "se3" and rnd.random() < 0.7:
                q = v["p"]["v"][3:]
                if rnd.random() < 0.5:
                    dg = rnd.choice([2, 3, 4, 5, 6])
                    q2 = [round(x, dg) for x in q]
                    if any(q2):
                        q = q2
                else:
                    f = 1.0 + rnd.choice([1.0, -1.0]) * 10.0 ** rnd.uniform(-8, -1.5)
                    q = [x * f for x in q]
                v["p"]["v"][3:] = q
    # information matrices in various memory layouts (Fortran order, strided view): values are what matters
    for e in case["edges"]:
        e["layout"] = g.choice(["C", "C", "F", "strided"])
    case["vshare"] = vshare
    case["share"] = share
    if g.choice([False, False, False, False, True]):
        # nothing fixed at all (optimize(fix_first_pose=False) then solves a singular system: still only poses may change)
        for v in case["verts"]:
            v["fixed"] = False
        case["unanchored"] = True
    if g.choice([False, False, False, True]):
        # a free vertex that no edge refers to (a landmark not observed yet): optimize() solves a singular system then, and
        # still only poses may change - in particular no fixed flag other than the first one (round 10, C15-m)
        used = set(v["id"] for v in case["verts"])
        k = rnd.choice([case["base"], R.POINT_OF[case["base"]]])
        p = g.pose(k, s=10.0)
        nid = max(used) + rnd.randint(1, 5) if rnd.random() < 0.7 else min(used) - rnd.randint(1, 5)
        # appended last: the sharing tables above refer to vertices by position
        case["verts"].append({"id": nid, "p": p, "fixed": False, "truth": list(p["v"]), "role": "isolated"})
        case["isolated_free"] = True
    nops = g.integer(3, 50)
    ops = []
    for _ in range(nops):
        op = g.choice(OPS)
        ops.append({"op": op, "a": rnd.randrange(10**6), "b": rnd.randrange(10**6), "k": rnd.choice([1, 1, 2, 3]), "ff": rnd.random() < 0.5, "tol": rnd.choice([0.0, 1e-4]), "verbose": rnd.random() < 0.5})
    case["ops"] = ops
    return case


def strategy(tier):
    return strategy_()


def summarise(case):
    s = GG.summarise(case)
    s["share"] = case["share"]
    s["ops"] = [o["op"] for o in case["ops"]]
    return s


def build_shared(case):
    g = GG.build(case)
    for i, j, what in case["share"]:
        ei, ej = g._edges[i], g._edges[j]
        if what == "info":
            ei.information = ej.information
        elif what == "z":
            ei.estimate = ej.estimate
        elif what == "off":
            ei.offset = ej.offset
    for what, i, j in case.get("vshare", []):
        if what == "vertex":
            g._vertices[i].pose = g._vertices[j].pose
        elif what == "estimate":
            g._vertices[i].pose = g._edges[j].estimate
        else:
            g._vertices[i].pose = g._edges[j].offset
    return g


def _b(x):
    if x is None:
        return None
    if isinstance(x, (float, int, np.floating, np.integer)):
        return ("scalar", gs.bits(np.array([float(x)])))
    a = np.asarray(x)
    return (type(x).__name__, a.shape, gs.bits(a))


def snapshot(g):
    verts = [(id(v), v.id, type(v.pose).__name__, gs.bits(v.pose), bool(v.fixed), v.gradient_index) for v in g._vertices]
    edges = []
    for e in g._edges:
        edges.append(
            (
                id(e),
                type(e).__name__,
                tuple(e.vertex_ids),
                _b(e.information),
                id(e.information),
                _b(e.estimate),
                id(e.estimate),
                _b(getattr(e, "offset", None)),
                id(getattr(e, "offset", None)),
                getattr(e, "offset_id", None),
                tuple(id(v) for v in e.vertices),
            )
        )
    return {"verts": verts, "edges": edges, "nv": len(g._vertices), "ne": len(g._edges)}


def _diff(model, now):
    if model["nv"] != now["nv"] or model["ne"] != now["ne"]:
        return "number of vertices/edges changed"
    names = ["object", "id", "pose type", "pose bits", "fixed flag", "gradient_index"]
    for i, (a, b) in enumerate(zip(model["verts"], now["verts"])):
        for n, x, y in zip(names, a, b):
            if x != y:
                return "vertex #%d: %s changed" % (i, n)
    names = ["object", "type", "vertex_ids", "information", "information object", "estimate", "estimate object", "offset", "offset object", "offset_id", "vertices binding"]
    for i, (a, b) in enumerate(zip(model["edges"], now["edges"])):
        for n, x, y in zip(names, a, b):
            if x != y:
                return "edge #%d: %s changed" % (i, n)
    return None


def _ret_bits(x):
    """Canonical, bit-exact representation of a query's return value."""
    if x is None or isinstance(x, (bool, str, int)):
        return x
    if isinstance(x, (float, np.floating)):
        return ("f", gs.bits(np.array([float(x)])))
    if isinstance(x, np.ndarray):
        return ("a", type(x).__name__, x.shape, gs.bits(x))
    if isinstance(x, (list, tuple)):
        return tuple(_ret_bits(y) for y in x)
    return repr(x)


def _clone_graph(case, g):
    """A fresh graph (built exactly like the original, including the object sharing) with bit-identical state."""
    c = build_shared(case)
    for v_new, v_old in zip(c._vertices, g._vertices):
        v_new.pose = gs.mk_pose_exact(gs.kind_of(v_old.pose), np.asarray(v_old.pose))
        v_new.fixed = bool(v_old.fixed)
    return c


def check(case, ctx):
    GG.classify(case, ctx)
    if case["meta"].get("near_equal_offsets"):
        ctx.event("landmark-offsets-equal-to-1e-9-under-one-id")
    if case.get("denorm"):
        ctx.event("se3-vertex-quaternions-not-exactly-unit")
    g = build_shared(case)
    model = snapshot(g)
    shared = bool(case["share"]) or bool(case.get("vshare"))
    if case.get("vshare"):
        ctx.event("vertex-pose-object-shared:" + "+".join(sorted(set(w for w, _, _ in case["vshare"]))))
    if shared:
        ctx.event("shared-objects")
    seen_opt = 0
    numeric_between = False
    numeric_since_opt = False
    tmpdir = None
    ne, nv = len(g._edges), len(g._vertices)

    def twice(name, f):
        r1 = f()
        r2 = f()
        if _ret_bits(r1) != _ret_bits(r2):
            ctx.fail("query-not-repeatable:" + name, "two successive calls of %s returned different values" % name)
            return True
        return False

    try:
        for step, o in enumerate(case["ops"]):
            op = o["op"]
            ctx.event("op:" + op)
            e = g._edges[o["a"] % ne]
            v = g._vertices[o["b"] % nv]
            if op == "edge.calc_error":
                if twice(op, lambda: np.array(e.calc_error())):
                    return
            elif op == "edge.calc_chi2":
                if twice(op, lambda: e.calc_chi2()):
                    return
            elif op == "graph.calc_chi2":
                if twice(op, lambda: g.calc_chi2()):
                    return
            elif op == "edge.calc_jacobians":
                if twice(op, lambda: [np.array(J) for J in e.calc_jacobians()]):
                    return
            elif op == "edge.numeric_jacobians":
                if twice(op, lambda: [np.array(J) for J in BaseEdge.calc_jacobians(e)]):
                    return
                if seen_opt >= 1:
                    numeric_since_opt = True
            elif op == "edge.calc_chi2_gradient_hessian":
                if twice(op, lambda: e.calc_chi2_gradient_hessian()):
                    return
            elif op == "equals":
                c = _clone_graph(case, g)
                ec = c._edges[o["a"] % ne]
                vc = c._vertices[o["b"] % nv]
                tol = 10.0 ** -(1 + o["k"] * 3)
                for name, f, want in (
                    ("pose.equals", lambda: v.pose.equals(vc.pose, tol), True),
                    ("vertex.equals", lambda: v.equals(vc, tol), True),
                    ("edge.equals", lambda: e.equals(ec, tol), True),
                    ("graph.equals", lambda: g.equals(c, tol), True),
                ):
                    if twice(name, f):
                        return
                if _diff(snapshot(c), snapshot(_clone_graph(case, g))) and False:
                    pass
            elif op == "to_g2o":
                for obj in (v, e):
                    try:
                        if twice("to_g2o", lambda: obj.to_g2o()):
                            return
                    except (NotImplementedError, ValueError):
                        ctx.event("to_g2o:refused")
                if tmpdir is None:
                    tmpdir = tempfile.mkdtemp(prefix="vf_c15_")
                try:
                    g.to_g2o(os.path.join(tmpdir, "g.g2o"))
                except (NotImplementedError, ValueError):
                    # content the format cannot express is refused (documented); the state must still be unchanged
                    ctx.event("to_g2o:refused")
            elif op == "pose.ops":
                p = v.pose
                q = g._vertices[o["a"] % nv].pose
                p0, q0 = gs.bits(p), gs.bits(q)
                try:
                    _ = p.inverse
                    _ = p.to_array(), p.to_compact(), p.position, p.orientation
                    if type(p) is type(q):
                        _ = p + q
                        _ = p - q
                    _ = p + np.zeros(p.COMPACT_DIMENSIONALITY)
                    w = p
                    w += np.full(p.COMPACT_DIMENSIONALITY, 0.01)
                    # increments are the caller's arrays (slices of the solver's dx): any size of step, also a rotation part
                    # longer than 1 (which the update clips), writable or read-only - they are never written to
                    cd = p.COMPACT_DIMENSIONALITY
                    big = np.array([0.3, -0.2, 0.9, 0.8, -0.7, 0.6][:cd] if cd != 6 else [0.3, -0.2, 0.1, 0.9, 0.8, -0.7], dtype=np.float64)
                    longer = np.concatenate([[5.0], big, [6.0]])
                    sl = longer[1:-1]
                    ro = big.copy()
                    ro.setflags(write=False)
                    keep = (big.tobytes(), longer.tobytes())
                    _ = p + big, p + sl, p + ro
                    w = p
                    w += sl
                    if (big.tobytes(), longer.tobytes()) != keep:
                        return ctx.fail("operand-mutated", "pose + increment wrote into the caller's increment array (step %d)" % step)
                except NotImplementedError:
                    pass
                if gs.bits(p) != p0 or gs.bits(q) != q0:
                    return ctx.fail("operand-mutated", "a pose operator changed its operand (step %d)" % step)
            elif op == "pose.jacobians":
                p = v.pose
                q = g._vertices[o["a"] % nv].pose
                if type(p) is type(q):
                    for name in (
                        "jacobian_self_oplus_other_wrt_self",
                        "jacobian_self_oplus_other_wrt_self_compact",
                        "jacobian_self_oplus_other_wrt_other",
                        "jacobian_self_oplus_other_wrt_other_compact",
                        "jacobian_self_ominus_other_wrt_self",
                        "jacobian_self_ominus_other_wrt_self_compact",
                        "jacobian_self_ominus_other_wrt_other",
                        "jacobian_self_ominus_other_wrt_other_compact",
                    ):
                        if twice(name, lambda: np.array(getattr(p, name)(q))):
                            return
                if twice("jacobian_boxplus", lambda: np.array(p.jacobian_boxplus())) or twice("jacobian_inverse", lambda: np.array(p.jacobian_inverse())):
                    return
            elif op == "pose.copy_mutate":
                p = v.pose
                p0 = gs.bits(p)
                c = p.copy()
                if type(c) is not type(p) or gs.bits(c) != p0:
                    return ctx.fail("copy", "copy() is not an equal pose of the same type")
                np.asarray(c)[0] += 1.0
                np.asarray(c)[-1] = -np.asarray(c)[-1] + 0.5
                if gs.bits(p) != p0:
                    return ctx.fail("copy-not-independent", "mutating a copy changed the original pose (step %d)" % step)
                est = e.estimate
                if gs.kind_of(est):
                    e0 = gs.bits(est)
                    c2 = est.copy()
                    np.asarray(c2)[0] -= 2.0
                    if gs.bits(est) != e0:
                        return ctx.fail("copy-not-independent", "mutating a copy of an estimate changed the estimate")
            elif op == "fresh-differential":
                # every query on the long-lived graph equals the same query on a fresh graph rebuilt from the current
                # state (results depend on the current state only - no cache left over from earlier calls)
                c = _clone_graph(case, g)
                for i, (ea, eb) in enumerate(zip(g._edges, c._edges)):
                    if i != o["a"] % ne and i != o["b"] % ne:
                        continue
                    qa = ([np.array(J) for J in ea.calc_jacobians()], np.array(ea.calc_error()), ea.calc_chi2(), ea.calc_chi2_gradient_hessian())
                    qb = ([np.array(J) for J in eb.calc_jacobians()], np.array(eb.calc_error()), eb.calc_chi2(), eb.calc_chi2_gradient_hessian())
                    if _ret_bits(qa) != _ret_bits(qb):
                        return ctx.fail("query-depends-on-history", "step %d: edge #%d answers differently on the long-lived graph and on a fresh graph with the same state" % (step, i))
                if _ret_bits(g.calc_chi2()) != _ret_bits(c.calc_chi2()):
                    return ctx.fail("query-depends-on-history", "step %d: Graph.calc_chi2 differs between the long-lived graph and a fresh graph with the same state" % step)
            elif op == "optimize":
                if seen_opt >= 1 and numeric_since_opt:
                    numeric_between = True
                numeric_since_opt = False
                seen_opt += 1
                GC.optimize_quiet(g, tol=o["tol"], max_iter=o["k"], fix_first_pose=o["ff"], verbose=o["verbose"])
                now = snapshot(g)
                # the model: only vertex poses may change (same type), plus the first fixed flag iff asked
                mv = []
                for i, (a, b) in enumerate(zip(model["verts"], now["verts"])):
                    if a[2] != b[2]:
                        return ctx.fail("optimize-changed-other-state", "optimize changed the pose type of vertex #%d" % i)
                    fixed_flag = a[4] or (o["ff"] and i == 0)
                    if fixed_flag and a[3] != b[3]:
                        return ctx.fail("optimize-moved-fixed-vertex", "optimize changed fixed vertex #%d" % i)
                    mv.append((a[0], a[1], a[2], b[3], fixed_flag, a[5]))
                model = {"verts": mv, "edges": model["edges"], "nv": model["nv"], "ne": model["ne"]}
            # ---- invariant after every step
            d = _diff(model, snapshot(g))
            if d:
                sig = "state-changed-by:" + op
                return ctx.fail(sig, "after step %d (%s): %s" % (step, op, d))
    finally:
        if tmpdir is not None:
            shutil.rmtree(tmpdir, ignore_errors=True)
    if numeric_between:
        ctx.event("numeric-jacobian-between-optimizer-runs")
    ctx.nontrivial(numeric_between or shared)
