"""C05 - local convergence to a stationary point on SE(2)/SE(3)."""
import numpy as np

from .. import graphcheck as GC, graphgen as GG, gs, refgraph as RG, refmodel as R, strategies as S

ID = "C05"
RULE = (
    "SE2/SE3 graphs with 3..40 poses, 0..6 landmarks with rotated offsets, 0..8 loop closures, parallel/reversed edges, several fixed vertices, "
    "SPD information (cond <= 1e2, with cross terms); calibrated neighbourhood: initial-guess perturbation <= 0.3 step lengths and <= 0.3 rad per "
    "vertex, measurement noise <= 0.05/cond(Omega) (translation and rad; or exactly zero) so that the Gauss-Newton curvature term cond(Omega)*|e| stays "
    "<= 0.05 and convergence is superlinear; tol in [1e-10,1e-3], max_iter=50. Oracles: final_chi2 <= initial_chi2; the "
    "Newton decrement b_f^T H_ff^-1 b_f of the *reference* system at the returned state is of the order of tol*chi2_final (<= 10*tol*chi2_final, widened for slow linear convergence) + floor; final_chi2 equals the reference "
    "chi2 of the returned state; with zero noise every optimized vertex equals the ground truth. Non-trivial = the graph has a loop closure or a "
    "landmark and the perturbation is > 0.05."
)
BUDGET = {"quick": 16 * 350, "thorough": 16 * 5000}
TOLERANCES = {
    "chi2 decrease": "final <= initial*(1+1e-9) + floor",
    "newton decrement": "lambda^2 <= 10*max(1, rho/(1-rho))*tol*chi2_final + 1e-12*(1+chi2_initial), rho = ratio of the last two chi2 decreases of the run",
    "ground truth (zero noise)": "1e-6*(1+S) translation, 1e-6 rotation",
    "final_chi2": "relative 1e-9 + 1e-12*|Omega|*(1+S)^2",
}
ASSUMPTIONS = [
    "outside the stated neighbourhood un-damped Gauss-Newton may legitimately diverge; nothing is claimed there",
    "reference model + AD trusted after self-test",
]


@S.composite
def strategy_(g):
    size = g.choice(["small", "small", "medium", "large"])
    n_pose = {"small": (3, 8), "medium": (8, 20), "large": (20, 40)}[size]
    cond = g.choice([1.0, 1e2])
    nz = 0.05 / cond
    case = GG.gen(
        g,
        bases=("se2", "se3"),
        n_pose=n_pose,
        n_lm=(0, 6),
        n_loops=(0, 8),
        conds=(cond,),
        noise=(nz, nz),
        pert=(0.3, 0.3),
        features=("parallel", "reversed", "permute", "ids", "multifixed", "quat-signs", "pure-translation-steps", "near-identity-orientations", "info-scale", "flag-types"),
    )
    case["tol"] = 10.0 ** g.rnd.uniform(-10, -3)
    # the weights of some edges are re-assigned (edge.information = new matrix) after the graph was built and evaluated once
    case["reweight"] = [[g.rnd.randrange(10**6), g.choice([0.01, 0.1, 10.0, 100.0])] for _ in range(g.rnd.randint(1, 3))] if g.choice([False, False, True]) else []
    # coarse-to-fine on ONE Graph object: a first run with a loose tolerance, then the run under test with the strict one
    case["coarse_first"] = g.choice([False, False, False, True])
    # staged optimisation on ONE Graph object: some free vertices are held for a first (single-iteration) run and released afterwards
    case["staged"] = []
    # the edge objects may come from an earlier graph (other Vertex objects with the same ids) that was optimised before
    case["edges_reused"] = g.choice([False, False, False, True])
    if g.choice([False, False, False, True]):
        ff = case["fix_first"]
        free = [i for i, v in enumerate(case["verts"]) if not (v["fixed"] or (ff and i == 0))]
        if len(free) >= 2:
            case["staged"] = sorted(g.rnd.sample(free, g.rnd.randint(1, max(1, len(free) // 2))))
    return case


def strategy(tier):
    return strategy_()


def summarise(case):
    s = GG.summarise(case)
    s["tol"] = case["tol"]
    return s


def check(case, ctx):
    GG.classify(case, ctx)
    m = case["meta"]
    ctx.nontrivial((m["nloops"] > 0 or m["nlm"] > 0) and m["pert"][0] > 0.05)
    S_ = GG.S_of(case)
    ff = case["fix_first"]
    fixed = GC.expected_fixed(case, ff)
    tol = case["tol"]
    g = GG.build(case)
    if case.get("edges_reused"):
        ctx.event("edge-objects-reused-from-an-optimised-graph")
        GC.optimize_quiet(g, tol=1e-2, max_iter=3, fix_first_pose=ff, verbose=False)
        g = gs.Graph(g._edges, GG.build(case)._vertices)
    if case.get("staged"):
        # first stage: hold some vertices (fixed=True), take one iteration, release them; the run examined below starts from there
        ctx.event("staged:hold-then-release")
        chi_pre = RG.chi2(g)
        for i in case["staged"]:
            g._vertices[i].fixed = True
        GC.optimize_quiet(g, tol=tol, max_iter=1, fix_first_pose=ff, verbose=False)
        for i in case["staged"]:
            g._vertices[i].fixed = False
        if not GC.all_finite(g) or not (RG.chi2(g) <= chi_pre):
            # the partial step left the calibrated neighbourhood (nothing is claimed about what follows)
            ctx.event("discarded:staged-step-increased-chi2")
            return
    if case.get("coarse_first"):
        ctx.event("coarse-run-first")
        GC.optimize_quiet(g, tol=1e-2, max_iter=50, fix_first_pose=ff, verbose=False)
        if not GC.all_finite(g):
            return ctx.fail("diverged-inside-neighbourhood", "non-finite poses after a coarse optimize() inside the calibrated neighbourhood")
    if case.get("reweight"):
        # a doubtful constraint is down-weighted (or a trusted one up-weighted) by assignment on the live, already evaluated graph
        ctx.event("information-reassigned-on-live-graph")
        g.calc_chi2()
        for e in g._edges:
            e.calc_chi2_gradient_hessian()
        for sel, c in case["reweight"]:
            e = g._edges[sel % len(g._edges)]
            e.information = np.array(e.information, dtype=float) * c
    chi0_ref = RG.chi2(g)
    ret, _ = GC.optimize_quiet(g, tol=tol, max_iter=50, fix_first_pose=ff, verbose=False)
    if not GC.all_finite(g):
        return ctx.fail("diverged-inside-neighbourhood", "non-finite poses after optimize() inside the calibrated neighbourhood")
    maxinfo = max(float(np.abs(np.asarray(e.information, dtype=float)).max()) for e in g._edges)
    floor_c = 1e-12 * maxinfo * (1 + S_) ** 2
    ctx.event("iterations:%s" % (ret.num_iterations if ret.num_iterations is not None and ret.num_iterations < 10 else ">=10"))
    ctx.event("converged:%s" % bool(ret.converged))
    if not GC.rel_close(float(ret.initial_chi2), chi0_ref, 1e-9, floor_c):
        return ctx.fail("initial-chi2", "initial_chi2=%r reference=%r" % (ret.initial_chi2, chi0_ref))
    # (1)
    if not (float(ret.final_chi2) <= float(ret.initial_chi2) * (1 + 1e-9) + floor_c):
        return ctx.fail("chi2-increased", "final_chi2=%r > initial_chi2=%r" % (ret.final_chi2, ret.initial_chi2))
    # (4)
    sysf = RG.system(g)
    if not GC.rel_close(float(ret.final_chi2), sysf["chi2"], 1e-9, floor_c):
        return ctx.fail("final-chi2", "final_chi2=%r reference chi2 of returned state=%r" % (ret.final_chi2, sysf["chi2"]))
    # (2) Newton decrement with the reference system
    free = RG.free_indices(g, fixed)
    if len(free):
        Hff, bf = sysf["H"][np.ix_(free, free)], sysf["b"][free]
        cond = float(np.linalg.cond(Hff))
        if not np.isfinite(cond) or cond > 1e10:
            ctx.event("discarded:ill-conditioned")
            return
        lam2 = float(bf @ np.linalg.solve(Hff, bf))
        # "below the requested tolerance scale": the run stops when the last relative decrease is < tol; with linear
        # convergence at rate rho the decrement still to go is about rho/(1-rho) times that decrease, so the bound is
        # 10*tol*chi2 (an order of magnitude), widened by the rate observed in the run's own chi2 sequence
        seq = [float(ret.initial_chi2)] + [float(it.chi2) for it in ret.iteration_results if it.chi2 is not None]
        rho = 0.0
        if len(seq) >= 3 and seq[-3] - seq[-2] > 0:
            rho = min(0.99, max(0.0, (seq[-2] - seq[-1]) / (seq[-3] - seq[-2])))
        if rho > 0.3:
            ctx.event("linear-convergence-rate>0.3")
        bound = 10.0 * max(1.0, rho / (1.0 - rho)) * tol * sysf["chi2"] + 1e-12 * (1 + chi0_ref)
        ctx.deviation("newton decrement", lam2, bound)
        if not (lam2 <= bound):
            return ctx.fail("not-stationary", "Newton decrement %.3e > tol*chi2_final + floor = %.3e (tol=%.1e, chi2 %r -> %r, %r iterations, converged=%r)" % (lam2, bound, tol, ret.initial_chi2, ret.final_chi2, ret.num_iterations, ret.converged))
    # (3) ground truth with zero noise
    if m["noise"][0] == 0.0 and m["noise"][1] == 0.0:
        worst = 0.0
        for i, (v, vd) in enumerate(zip(g._vertices, case["verts"])):
            k = vd["p"]["k"]
            dt, dr = GC.pose_diff(k, gs.stored(v.pose), vd["truth"])
            worst = max(worst, dt / (1e-6 * (1 + S_)), dr / 1e-6)
            if not (dt <= 1e-6 * (1 + S_) and dr <= 1e-6):
                return ctx.fail("ground-truth-not-recovered", "noise-free graph: vertex #%d differs from ground truth by (%.3e, %.3e)" % (i, dt, dr))
        ctx.deviation("ground truth", worst, 1.0)
