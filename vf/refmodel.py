"""Independent reference model of graphslam's mathematics.

Written from the mathematical definitions (Hamilton products, sandwich rotation
q (v,0) q*, homogeneous matrices), *not* from the repository's expanded
polynomials, and generic in the scalar type: every function takes and returns
plain Python lists of scalars that may be floats or `dual.Dual` numbers, so the
same code yields reference values and exact reference derivatives.

Pose encodings (lists): r2 [x,y]; r3 [x,y,z]; se2 [x,y,theta]; se3 [x,y,z,qx,qy,qz,qw].
SE(2) angles are NOT wrapped here: callers compare modulo 2*pi.
"""
import math

import numpy as np

from .dual import Dual, gsin, gcos, gsqrt, seeds, jacobian, values, val

KINDS = ("r2", "r3", "se2", "se3")
DIM = {"r2": 2, "r3": 3, "se2": 3, "se3": 7}          # stored length
CDIM = {"r2": 2, "r3": 3, "se2": 3, "se3": 6}         # compact / tangent length
PDIM = {"r2": 2, "r3": 3, "se2": 2, "se3": 3}         # position length
POINT_OF = {"se2": "r2", "se3": "r3", "r2": "r2", "r3": "r3"}


# ----------------------------------------------------------------- quaternions
def qmul(a, b):
    ax, ay, az, aw = a
    bx, by, bz, bw = b
    return [
        aw * bx + ax * bw + ay * bz - az * by,
        aw * by - ax * bz + ay * bw + az * bx,
        aw * bz + ax * by - ay * bx + az * bw,
        aw * bw - ax * bx - ay * by - az * bz,
    ]


def qconj(q):
    return [-q[0], -q[1], -q[2], q[3]]


def qrotv(q, v):
    """Rotate v by the unit quaternion q with the sandwich product q (v,0) q*."""
    p = qmul(qmul(q, [v[0], v[1], v[2], 0.0]), qconj(q))
    return p[:3]


# ------------------------------------------------------------------ SE(3)
def se3_mul(a, b):
    r = qrotv(a[3:], b[:3])
    return [a[0] + r[0], a[1] + r[1], a[2] + r[2]] + qmul(a[3:], b[3:])


def se3_inv(a):
    qi = qconj(a[3:])
    r = qrotv(qi, a[:3])
    return [-r[0], -r[1], -r[2]] + qi


def se3_act(a, p):
    r = qrotv(a[3:], p)
    return [a[0] + r[0], a[1] + r[1], a[2] + r[2]]


def se3_from_compact(d):
    n2 = d[3] * d[3] + d[4] * d[4] + d[5] * d[5]
    return [d[0], d[1], d[2], d[3], d[4], d[5], gsqrt(1.0 - n2)]


# ------------------------------------------------------------------ SE(2)
def _se2_mat(a):
    c, s = gcos(a[2]), gsin(a[2])
    return [[c, -s, a[0]], [s, c, a[1]], [0.0, 0.0, 1.0]]


def _mat3_mul(A, B):
    return [[A[i][0] * B[0][j] + A[i][1] * B[1][j] + A[i][2] * B[2][j] for j in range(3)] for i in range(3)]


def se2_mul(a, b):
    M = _mat3_mul(_se2_mat(a), _se2_mat(b))
    return [M[0][2], M[1][2], a[2] + b[2]]


def se2_inv(a):
    # inverse of [[R, t],[0,1]] is [[R^T, -R^T t],[0,1]]
    c, s = gcos(a[2]), gsin(a[2])
    return [-(c * a[0] + s * a[1]), -(-s * a[0] + c * a[1]), -a[2]]


def se2_act(a, p):
    c, s = gcos(a[2]), gsin(a[2])
    return [a[0] + c * p[0] - s * p[1], a[1] + s * p[0] + c * p[1]]


# ------------------------------------------------------------------ generic
def mul(kind, a, b):
    if kind == "se3":
        return se3_mul(a, b)
    if kind == "se2":
        return se2_mul(a, b)
    return [x + y for x, y in zip(a, b)]


def inv(kind, a):
    if kind == "se3":
        return se3_inv(a)
    if kind == "se2":
        return se2_inv(a)
    return [-x for x in a]


def act(kind, a, p):
    """Action of the transform on a point (for r2/r3 'transforms' it is a translation)."""
    if kind == "se3":
        return se3_act(a, p)
    if kind == "se2":
        return se2_act(a, p)
    return [x + y for x, y in zip(a, p)]


def ominus(kind, a, b):
    """a (-) b  :=  b^-1 (+) a."""
    return mul(kind, inv(kind, b), a)


def compact(kind, a):
    return list(a[:6]) if kind == "se3" else list(a)


def from_compact(kind, d):
    return se3_from_compact(d) if kind == "se3" else list(d)


def boxplus(kind, p, d):
    """p [+] d  :=  p (+) from_compact(d)."""
    return mul(kind, p, from_compact(kind, d))


def identity(kind):
    return {"r2": [0.0, 0.0], "r3": [0.0, 0.0, 0.0], "se2": [0.0, 0.0, 0.0], "se3": [0.0, 0.0, 0.0, 0.0, 0.0, 0.0, 1.0]}[kind]


# ------------------------------------------------------- measurement models
def odo_err(kind, p1, p2, z):
    """compact( z (-) (p2 (-) p1) ); for SE(3) the error quaternion is taken with non-negative scalar part
    (q and -q are the same rotation), so the error is a function of the physical poses only."""
    e = ominus(kind, z, ominus(kind, p2, p1))
    if kind == "se3" and val(e[6]) < 0.0:
        e = e[:3] + [-x for x in e[3:]]
    return compact(kind, e)


def lm_err(kind, p1, off, l, z):
    """((p1 (+) off)^-1 applied to l) - z ; `kind` is the pose type of the first vertex."""
    T = inv(kind, mul(kind, p1, off))
    q = act(kind, T, l)
    return [a - b for a, b in zip(q, z)]


def chi2(e, omega):
    """Explicit double sum  sum_ij e_i Omega_ij e_j."""
    n = len(e)
    tot = 0.0
    for i in range(n):
        for j in range(n):
            tot = tot + e[i] * float(omega[i][j]) * e[j]
    return tot


# ------------------------------------------------------- float-only matrix route
def rotmat(q):
    x, y, z, w = [float(t) for t in q]
    n = x * x + y * y + z * z + w * w
    s = 2.0 / n
    return np.array(
        [
            [1 - s * (y * y + z * z), s * (x * y - z * w), s * (x * z + y * w)],
            [s * (x * y + z * w), 1 - s * (x * x + z * z), s * (y * z - x * w)],
            [s * (x * z - y * w), s * (y * z + x * w), 1 - s * (x * x + y * y)],
        ]
    )


def hmat(kind, a):
    """Homogeneous transformation matrix of a pose (floats)."""
    a = [float(t) for t in a]
    if kind == "se3":
        M = np.eye(4)
        M[:3, :3] = rotmat(a[3:])
        M[:3, 3] = a[:3]
        return M
    if kind == "se2":
        c, s = math.cos(a[2]), math.sin(a[2])
        return np.array([[c, -s, a[0]], [s, c, a[1]], [0.0, 0.0, 1.0]])
    n = len(a)
    M = np.eye(n + 1)
    M[:n, n] = a
    return M


def wrap(a):
    """Wrap a float angle difference into (-pi, pi] via atan2."""
    return math.atan2(math.sin(a), math.cos(a))


# ------------------------------------------------------- derivatives by AD
def jac_wrt_boxplus(kind, p, f):
    """d/d(delta) f(p [+] delta) at delta = 0, with f mapping a pose list to a list of scalars.

    Returns (value array, Jacobian (len(f) x CDIM[kind])).
    """
    n = CDIM[kind]
    d = seeds(n)
    out = f(boxplus(kind, [float(x) for x in p], d))
    return values(out), jacobian(out, n)


# ------------------------------------------------------- self test (oracle sanity)
def selftest():
    """Cross-validate the oracle itself: AD vs central differences, group laws, matrix route.

    Raises AssertionError (-> harness error, exit 2) if the reference model is inconsistent.
    """
    rng = np.random.RandomState(12345)

    def rq():
        q = rng.normal(size=4)
        return list(q / np.linalg.norm(q))

    for _ in range(20):
        a = list(rng.uniform(-3, 3, 3)) + rq()
        b = list(rng.uniform(-3, 3, 3)) + rq()
        c = list(rng.uniform(-3, 3, 3)) + rq()
        # matrix route vs Hamilton route
        M = hmat("se3", a) @ hmat("se3", b)
        ab = se3_mul(a, b)
        assert np.abs(M - hmat("se3", ab)).max() < 1e-13
        assert np.abs(np.linalg.inv(hmat("se3", a)) - hmat("se3", se3_inv(a))).max() < 1e-13
        # associativity
        l = se3_mul(se3_mul(a, b), c)
        r = se3_mul(a, se3_mul(b, c))
        assert np.abs(np.array(l) - np.array(r)).max() < 1e-13
        # AD vs central difference of the reference odometry error
        z = list(rng.uniform(-3, 3, 3)) + rq()
        _, J = jac_wrt_boxplus("se3", a, lambda p: odo_err("se3", p, b, z))
        h = 1e-6
        for k in range(6):
            dp = [0.0] * 6
            dp[k] = h
            dm = [0.0] * 6
            dm[k] = -h
            ep = np.array(odo_err("se3", boxplus("se3", a, dp), b, z))
            em = np.array(odo_err("se3", boxplus("se3", a, dm), b, z))
            assert np.abs((ep - em) / (2 * h) - J[:, k]).max() < 1e-7
        # SE(2)
        a2 = list(rng.uniform(-3, 3, 2)) + [rng.uniform(-3.1, 3.1)]
        b2 = list(rng.uniform(-3, 3, 2)) + [rng.uniform(-3.1, 3.1)]
        M2 = hmat("se2", a2) @ hmat("se2", b2)
        assert np.abs(M2 - hmat("se2", se2_mul(a2, b2))).max() < 1e-13
        assert np.abs(np.linalg.inv(hmat("se2", a2)) - hmat("se2", se2_inv(a2))).max() < 1e-13
        pt = list(rng.uniform(-3, 3, 2))
        assert np.abs((hmat("se2", a2) @ np.array(pt + [1.0]))[:2] - np.array(se2_act(a2, pt))).max() < 1e-13
        pt3 = list(rng.uniform(-3, 3, 3))
        assert np.abs((hmat("se3", a) @ np.array(pt3 + [1.0]))[:3] - np.array(se3_act(a, pt3))).max() < 1e-13
    return True
