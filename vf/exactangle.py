"""Exact rational angle arithmetic (fractions.Fraction with an 80-digit pi) for C11."""
from fractions import Fraction

PI_STR = "3.14159265358979323846264338327950288419716939937510582097494459230781640628620899"
PI = Fraction(PI_STR)
TWO_PI = 2 * PI


def frac(x):
    """Exact rational value of a float."""
    return Fraction(float(x))


def residual_mod_2pi(got, exact):
    """|got - exact| modulo 2*pi, as a Fraction in [0, pi]."""
    d = frac(got) - exact
    n = round(d / TWO_PI)
    return abs(d - n * TWO_PI)
