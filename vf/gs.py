"""Glue between JSON-able case dicts and graphslam objects."""
import numpy as np

from . import env  # noqa: F401
from graphslam.pose.r2 import PoseR2
from graphslam.pose.r3 import PoseR3
from graphslam.pose.se2 import PoseSE2
from graphslam.pose.se3 import PoseSE3
from graphslam.vertex import Vertex
from graphslam.edge.edge_odometry import EdgeOdometry
from graphslam.edge.edge_landmark import EdgeLandmark
from graphslam.graph import Graph

CLS = {"r2": PoseR2, "r3": PoseR3, "se2": PoseSE2, "se3": PoseSE3}
KIND_OF = {PoseR2: "r2", PoseR3: "r3", PoseSE2: "se2", PoseSE3: "se3"}


def mk_pose(d):
    """Build a graphslam pose from {'k': kind, 'v': [...]} through the public constructor."""
    k, v = d["k"], d["v"]
    if k == "r2":
        return PoseR2([v[0], v[1]])
    if k == "r3":
        return PoseR3([v[0], v[1], v[2]])
    if k == "se2":
        return PoseSE2([v[0], v[1]], v[2])
    return PoseSE3([v[0], v[1], v[2]], [v[3], v[4], v[5], v[6]])


def mk_pose_kv(k, v):
    return mk_pose({"k": k, "v": v})


def kind_of(p):
    for c, k in KIND_OF.items():
        if type(p) is c:
            return k
    for c, k in KIND_OF.items():
        if isinstance(p, c):
            return k
    return None


def stored(p):
    """The numbers actually stored in a pose, as a list of Python floats (input of the reference model)."""
    return [float(x) for x in np.asarray(p)]


def bits(a):
    """Bit pattern of a float array (for bitwise comparisons; distinguishes -0.0 and NaN payloads)."""
    return np.ascontiguousarray(np.asarray(a, dtype=np.float64)).tobytes()


def finite(a):
    return bool(np.all(np.isfinite(np.asarray(a, dtype=float))))


def max_trans(*poses):
    """S: the largest translation magnitude among pose dicts / lists."""
    s = 0.0
    for p in poses:
        if isinstance(p, dict):
            k, v = p["k"], p["v"]
        else:
            k, v = p
        n = {"r2": 2, "r3": 3, "se2": 2, "se3": 3}[k]
        for x in v[:n]:
            s = max(s, abs(float(x)))
    return s


def outside_suite_box(d):
    """True iff the pose has a component outside the repository suite's sampling box [0,1)^k."""
    return any((x < 0.0) or (x >= 1.0) for x in d["v"])


def mk_pose_exact(kind, values):
    """A pose whose stored numbers are exactly `values` (bypasses constructor normalisation, e.g. the SE2 angle wrap)."""
    p = mk_pose_kv(kind, [0.0] * 2 + [0.0] if kind == "se2" else ([0.0] * 3 + [0.0, 0.0, 0.0, 1.0] if kind == "se3" else [0.0] * (2 if kind == "r2" else 3)))
    np.asarray(p)[:] = np.asarray(values, dtype=np.float64)
    return p
