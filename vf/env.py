"""Bootstrap: import graphslam from the working tree of $VERIF_REPO (default /repo).

The tree is put first on sys.path and the import location is verified, so a tree
edited just before the call is what gets tested.  No bytecode is written.
"""
import os
import sys
import warnings

os.environ.setdefault("MPLBACKEND", "Agg")
sys.dont_write_bytecode = True

REPO = os.path.realpath(os.environ.get("VERIF_REPO", "/repo"))
VERIF = os.path.dirname(os.path.dirname(os.path.abspath(__file__)))

if REPO not in sys.path or sys.path[0] != REPO:
    sys.path.insert(0, REPO)

warnings.simplefilter("ignore")

import graphslam  # noqa: E402

_loc = os.path.realpath(os.path.dirname(graphslam.__file__))
if not _loc.startswith(REPO + os.sep):
    sys.stderr.write("HARNESS ERROR: graphslam imported from %s, expected under %s\n" % (_loc, REPO))
    sys.exit(2)

GRAPHSLAM_DIR = _loc
