"""Write /verif/MANIFEST.json from vf/registry.py and validate it against the schema."""
import json
import os

from .registry import CHECKS, NOT_YET

VERIF = os.path.dirname(os.path.dirname(os.path.abspath(__file__)))
ALL = ["C%02d" % i for i in range(1, 19)]
BASELINE = "cd /repo && /venv/bin/python -m pytest -ra -q -p no:cacheprovider --timeout=900 --continue-on-collection-errors"


def main():
    checks = []
    for pid in ALL:
        if pid not in CHECKS:
            continue
        c = CHECKS[pid]
        checks.append(
            {
                "property_id": pid,
                "quick_cmd": "./check %s --tier quick" % pid,
                "thorough_cmd": "./check %s --tier thorough" % pid,
                "evidence_file": "/verif/evidence/%s.json" % pid,
                "replay_cmd_template": "./check %s --replay {path}" % pid,
                "engine": "vf",
                "level_claimed": {"category": c["category"], "text": c["level_text"], "design_ref": c["design_ref"]},
                "level_note": c["level_note"],
                "technique": c["technique"],
            }
        )
    na = [{"property_id": pid, "reason": NOT_YET.get(pid, "check not built yet (work in progress); see DESIGN.md section 4 for the planned generated-input check")} for pid in ALL if pid not in CHECKS]
    m = {
        "version": 1,
        "setup_cmd": "./setup.sh",
        "hooks": {
            "guard": "GRAPHSLAM_VERIF",
            "enable": "no hooks are needed: every property is observable through the public API; checks import graphslam from /repo's working tree (VERIF_REPO overrides the path for audits)",
            "baseline_off_cmd": BASELINE,
            "source_commits": [],
            "add_only": True,
        },
        "engines": [
            {
                "name": "vf",
                "path": "vf/",
                "serves_properties": [c["property_id"] for c in checks],
                "kind_free_text": "Hypothesis property-based testing framework: two-layer generators (vf/strategies.py), independent reference model with forward-mode AD (vf/refmodel.py, vf/dual.py), 16-way sharded runner with known-findings matching, replay files and evidence (vf/runner.py), one module per property (vf/props/)",
            }
        ],
        "checks": checks,
        "notes": "All checks: ./check <ID> --tier quick|thorough, VERIF_SEED honoured; exit 0 held / 1 VIOLATION / 2 harness error. Known findings: known_findings.json. Replays: replays/.",
        "not_applicable": na,
    }
    path = os.path.join(VERIF, "MANIFEST.json")
    with open(path, "w") as f:
        f.write(json.dumps(m, indent=1))
    try:
        import jsonschema

        jsonschema.validate(m, json.load(open("/root/.vp/MANIFEST.schema.json")))
        print("MANIFEST.json valid: %d checks, %d not_applicable" % (len(checks), len(na)))
    except ImportError:
        print("MANIFEST.json written (jsonschema not importable here): %d checks" % len(checks))


if __name__ == "__main__":
    main()
