"""Independent dense reference for graph-level quantities: chi^2, gradient b, Hessian H, Gauss-Newton step.

Reads only the numbers stored in the live graphslam objects (poses, estimates, offsets, information, ids, fixed flags)
and recomputes everything with the reference model (AD Jacobians, explicit loops, dense numpy.linalg) - no scipy.sparse,
no block dictionary, no triangular trick, none of graphslam's error/Jacobian code.
"""
import numpy as np

from . import customedges as CE, edgecases as E, gs, refmodel as R


def resolve(graph, edge):
    """The graph's vertices named by the edge's ids (what the edge constrains *in this graph*), looked up by id in the graph's
    vertex list - independently of the object links the library keeps in edge.vertices.  Falls back to edge.vertices if the
    graph's ids are not unique."""
    by_id = {}
    for v in graph._vertices:
        if v.id in by_id:
            return list(edge.vertices)
        by_id[v.id] = v
    try:
        return [by_id[i] for i in edge.vertex_ids]
    except KeyError:
        return list(edge.vertices)


def edge_descr(edge, verts=None):
    """(tag, kinds, ops, z, off, info) of a live edge, from stored numbers.  `verts`: the vertices it constrains
    (default: the objects the library linked)."""
    if verts is None:
        verts = edge.vertices
    kinds = [gs.kind_of(v.pose) for v in verts]
    ops = [gs.stored(v.pose) for v in verts]
    info = np.array(edge.information, dtype=float)
    if isinstance(edge, gs.EdgeOdometry):
        return ("odo:" + kinds[0], kinds, ops, gs.stored(edge.estimate), None, info)
    if isinstance(edge, gs.EdgeLandmark):
        return ("lm:" + kinds[0], kinds, ops, gs.stored(edge.estimate), gs.stored(edge.offset), info)
    tag = getattr(edge, "TAG", None)
    if tag is None:
        raise TypeError("unknown edge type %r" % type(edge))
    return (tag, kinds, ops, CE.estimate_to_list(edge), None, info)


def edge_error(descr):
    tag, kinds, ops, z, off, info = descr
    if tag.startswith("odo:") or tag.startswith("lm:"):
        return np.array([R.val(x) for x in E.ref_error(tag, ops[0], ops[1], z, off)], dtype=float)
    return np.array([R.val(x) for x in CE.REF[tag](kinds, ops, z)], dtype=float)


def edge_error_jacobians(descr):
    tag, kinds, ops, z, off, info = descr
    if tag.startswith("odo:") or tag.startswith("lm:"):
        e, J0, J1 = E.ref_error_and_jacobians(tag, ops[0], ops[1], z, off)
        return e, [J0, J1]
    return CE.ref_error_and_jacobians(tag, kinds, ops, z)


def canon_error(tag, e):
    """Bring the SE(2) angular error to (-pi, pi] (the error is an angle)."""
    if tag == "odo:se2" or tag == "relpose-se2":
        e = e.copy()
        e[2] = R.wrap(e[2])
    return e


def _is_se2_pose_error(descr):
    tag, kinds = descr[0], descr[1]
    return tag == "odo:se2" or (tag in ("relpose", "prior") and kinds[0] == "se2")


def chi2(graph):
    """Reference chi^2 of the live graph (explicit double sums)."""
    tot = 0.0
    for edge in graph._edges:
        d = edge_descr(edge, resolve(graph, edge))
        e = edge_error(d)
        if _is_se2_pose_error(d):
            e[2] = R.wrap(e[2])
        tot += float(R.chi2(list(e), d[5]))
    return tot


def layout(graph):
    """index slices of every vertex (list order, compact dimension) - written independently of gradient_index."""
    sl = []
    o = 0
    for v in graph._vertices:
        c = R.CDIM[gs.kind_of(v.pose)]
        sl.append(slice(o, o + c))
        o += c
    return sl, o


def system(graph):
    """Dense reference normal equations at the current state.

    Returns dict(H, b, chi2, slices, free (index array of free coordinates), fixed_mask per vertex)."""
    verts = graph._vertices
    sl, N = layout(graph)
    pos = {id(v): i for i, v in enumerate(verts)}
    H = np.zeros((N, N))
    b = np.zeros(N)
    tot = 0.0
    for edge in graph._edges:
        ev = resolve(graph, edge)
        d = edge_descr(edge, ev)
        e, Js = edge_error_jacobians(d)
        if _is_se2_pose_error(d):
            e = e.copy()
            e[2] = R.wrap(e[2])
        om = d[5]
        tot += float(R.chi2(list(e), om))
        idx = [pos[id(v)] for v in ev]
        for a, Ja in zip(idx, Js):
            b[sl[a]] += Ja.T @ (om @ e)
            for c, Jc in zip(idx, Js):
                H[sl[a], sl[c]] += Ja.T @ om @ Jc
    return {"H": H, "b": b, "chi2": tot, "slices": sl, "N": N}


def free_indices(graph, fixed_flags):
    sl, N = layout(graph)
    idx = []
    for s, f in zip(sl, fixed_flags):
        if not f:
            idx.extend(range(s.start, s.stop))
    return np.array(idx, dtype=int)


def local_step(kind, before, after):
    """compact( before^-1 (+) after ): the boxplus increment that was applied (reference arithmetic)."""
    d = R.mul(kind, R.inv(kind, [float(x) for x in before]), [float(x) for x in after])
    d = [R.val(x) for x in d]
    if kind == "se2":
        d[2] = R.wrap(d[2])
    if kind == "se3":
        # the increment quaternion is (v, +sqrt(1-|v|^2)): choose the representative with w >= 0
        if d[6] < 0:
            d = d[:3] + [-x for x in d[3:]]
        return d[:6]
    return d


def poses_snapshot(graph):
    return [gs.stored(v.pose) for v in graph._vertices]
