"""Helpers shared by the graph-level properties."""
import io
import contextlib
import math

import numpy as np

from . import gs, refmodel as R, refgraph as RG

EPS = 2.0**-52


def expected_fixed(case, fix_first):
    ff = [bool(v["fixed"]) for v in case["verts"]]
    if fix_first and ff:
        ff[0] = True
    return ff


@contextlib.contextmanager
def debug_logging():
    """Run a block with the library's loggers at DEBUG level (records swallowed by a NullHandler): the application's logging
    configuration must not change any result."""
    import logging

    names = ["graphslam"] + [n for n in list(logging.root.manager.loggerDict) if n.startswith("graphslam.")]
    saved = []
    handler = logging.NullHandler()
    for n in names:
        lg = logging.getLogger(n)
        saved.append((lg, lg.level, lg.propagate))
        lg.setLevel(logging.DEBUG)
        lg.propagate = False
        lg.addHandler(handler)
    try:
        yield
    finally:
        for lg, lvl, prop in saved:
            lg.removeHandler(handler)
            lg.setLevel(lvl)
            lg.propagate = prop


def optimize_quiet(graph, **kw):
    """graph.optimize(...) with stdout captured; returns (result, captured_text)."""
    buf = io.StringIO()
    with contextlib.redirect_stdout(buf):
        ret = graph.optimize(**kw)
    return ret, buf.getvalue()


def pose_diff(kind, a, b):
    """Physical difference of two stored poses: (max |translation diff|, rotation diff) with SE2 mod 2pi, SE3 up to sign."""
    a = [float(x) for x in a]
    b = [float(x) for x in b]
    n = R.PDIM[kind]
    dt = max(abs(x - y) for x, y in zip(a[:n], b[:n])) if n else 0.0
    if any(x != x for x in a + b):
        return float("nan"), float("nan")
    dr = 0.0
    if kind == "se2":
        dr = abs(R.wrap(a[2] - b[2]))
    elif kind == "se3":
        qa, qb = np.array(a[3:]), np.array(b[3:])
        s = 1.0 if float(np.dot(qa, qb)) >= 0 else -1.0
        dr = float(np.abs(qa - s * qb).max())
    return dt, dr


def all_finite(graph):
    return all(gs.finite(v.pose) for v in graph._vertices)


def steps(graph, before):
    """Per-vertex applied boxplus increments (reference arithmetic), concatenated in list order."""
    out = []
    for v, b in zip(graph._vertices, before):
        k = gs.kind_of(v.pose)
        out.extend(RG.local_step(k, b, gs.stored(v.pose)))
    return np.array(out, dtype=float)


def rel_close(a, b, rel, floor=0.0):
    return abs(a - b) <= rel * max(abs(a), abs(b)) + floor


def gn_step_oracle(ctx, case, g, ff, S_, check_report=True, fixed=None):
    """One optimizer iteration on the live graph `g` is exactly the Gauss-Newton step of the dense reference system
    reduced to the free coordinates (C03; reused by C06).  Returns True if a failure was reported or the case discarded.
    `fixed` (per-vertex flags expected at solve time) defaults to the case's flags (+ the first vertex if ff)."""
    if fixed is None:
        fixed = expected_fixed(case, ff)
    before = RG.poses_snapshot(g)
    sys0 = RG.system(g)
    free = RG.free_indices(g, fixed)
    H, b = sys0["H"], sys0["b"]
    chi_before = sys0["chi2"]
    sl = sys0["slices"]
    cond = 1.0
    if len(free):
        Hff, bf = H[np.ix_(free, free)], b[free]
        cond = float(np.linalg.cond(Hff))
        if not np.isfinite(cond) or cond > 1e10:
            ctx.event("discarded:ill-conditioned")
            return True
        dpred = np.linalg.solve(Hff, -bf)
        full = np.zeros(sys0["N"])
        full[free] = dpred
        for v, s in zip(g._vertices, sl):
            if gs.kind_of(v.pose) == "se3" and float(np.linalg.norm(full[s][3:])) >= 0.9:
                ctx.event("discarded:rot-step>=0.9")
                return True
            if gs.kind_of(v.pose) == "se2" and abs(float(full[s][2])) >= 3.0:
                # an angular step beyond +-pi cannot be recovered from the wrapped angles
                ctx.event("discarded:se2-rot-step>=3")
                return True

    ret, _ = optimize_quiet(g, tol=0.0, max_iter=1, fix_first_pose=ff, verbose=False)
    if not all_finite(g):
        return ctx.fail("nonfinite-poses", "poses are not finite after one iteration of a well-posed graph") or True
    d = steps(g, before)

    # (1) fixed vertices have zero step
    for i, (v, s) in enumerate(zip(g._vertices, sl)):
        if fixed[i]:
            k = gs.kind_of(v.pose)
            dt, dr = pose_diff(k, before[i], gs.stored(v.pose))
            if dt != 0.0 or dr > 4 * 4.5e-16:
                return ctx.fail("fixed-vertex-moved", "fixed vertex #%d (id %r) moved by (%.3e, %.3e)" % (i, v.id, dt, dr)) or True

    if len(free):
        df = d[free]
        nH = float(np.linalg.norm(Hff, 2))
        res = float(np.linalg.norm(Hff @ df + bf))
        tol_res = 1e-9 * (nH * float(np.linalg.norm(df)) + float(np.linalg.norm(bf))) + 1e-12 * (1 + S_) * nH
        ctx.deviation("backward residual", res, tol_res)
        if not (res <= tol_res):
            return ctx.fail("not-the-gauss-newton-step", "|H_ff d + b_f| = %.3e > %.3e (|d|=%.3e, cond=%.2e)" % (res, tol_res, float(np.linalg.norm(df)), cond)) or True
        err = float(np.abs(df - dpred).max())
        tol_d = 1e-9 * cond * (1 + float(np.abs(dpred).max()))
        ctx.deviation("step vs -H^-1 b", err, tol_d)
        if not (err <= tol_d):
            return ctx.fail("not-the-gauss-newton-step", "max|d - d_ref| = %.3e > %.3e" % (err, tol_d)) or True

    if check_report:
        maxinfo = max(float(np.abs(np.array(e["info"])).max()) for e in case["edges"]) if case["edges"] else 1.0
        floor = 1e-12 * maxinfo * (1 + S_) ** 2
        if ret.initial_chi2 is None or not rel_close(float(ret.initial_chi2), chi_before, 1e-9, floor):
            return ctx.fail("initial-chi2", "initial_chi2=%r reference=%r" % (ret.initial_chi2, chi_before)) or True
        chi_after = RG.chi2(g)
        if ret.final_chi2 is None or not rel_close(float(ret.final_chi2), chi_after, 1e-9, floor):
            return ctx.fail("final-chi2", "final_chi2=%r reference chi2 of returned state=%r" % (ret.final_chi2, chi_after)) or True
        if ret.num_iterations != 1:
            return ctx.fail("num-iterations", "num_iterations=%r after max_iter=1" % (ret.num_iterations,)) or True
    flags = [bool(v.fixed) for v in g._vertices]
    if flags != fixed:
        return ctx.fail("fixed-flags", "fixed flags after optimize %r, expected %r" % (flags, fixed)) or True
    return False
