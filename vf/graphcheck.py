"""Helpers shared by the graph-level properties."""
import io
import contextlib
import math

import numpy as np

from . import gs, refmodel as R, refgraph as RG

EPS = 2.0**-52


def expected_fixed(case, fix_first):
    ff = [bool(v["fixed"]) for v in case["verts"]]
    if fix_first and ff:
        ff[0] = True
    return ff


def optimize_quiet(graph, **kw):
    """graph.optimize(...) with stdout captured; returns (result, captured_text)."""
    buf = io.StringIO()
    with contextlib.redirect_stdout(buf):
        ret = graph.optimize(**kw)
    return ret, buf.getvalue()


def pose_diff(kind, a, b):
    """Physical difference of two stored poses: (max |translation diff|, rotation diff) with SE2 mod 2pi, SE3 up to sign."""
    a = [float(x) for x in a]
    b = [float(x) for x in b]
    n = R.PDIM[kind]
    dt = max(abs(x - y) for x, y in zip(a[:n], b[:n])) if n else 0.0
    if any(x != x for x in a + b):
        return float("nan"), float("nan")
    dr = 0.0
    if kind == "se2":
        dr = abs(R.wrap(a[2] - b[2]))
    elif kind == "se3":
        qa, qb = np.array(a[3:]), np.array(b[3:])
        s = 1.0 if float(np.dot(qa, qb)) >= 0 else -1.0
        dr = float(np.abs(qa - s * qb).max())
    return dt, dr


def all_finite(graph):
    return all(gs.finite(v.pose) for v in graph._vertices)


def steps(graph, before):
    """Per-vertex applied boxplus increments (reference arithmetic), concatenated in list order."""
    out = []
    for v, b in zip(graph._vertices, before):
        k = gs.kind_of(v.pose)
        out.extend(RG.local_step(k, b, gs.stored(v.pose)))
    return np.array(out, dtype=float)


def rel_close(a, b, rel, floor=0.0):
    return abs(a - b) <= rel * max(abs(a), abs(b)) + floor
