"""Registry of claimed checks: feeds MANIFEST.json (python -m vf.mkmanifest)."""

CHECKS = {}


def reg(pid, design_ref, technique, level_text, level_note, category="exploration"):
    CHECKS[pid] = dict(design_ref=design_ref, technique=technique, level_text=level_text, level_note=level_note, category=category)


TRUSTED = "Trusted base: numpy/scipy float64, Hypothesis 6.168, the independent reference model vf/refmodel.py + vf/dual.py (self-tested at the start of every run: AD vs central differences, Hamilton vs matrix route). "

reg(
    "C09",
    "DESIGN.md section 4 C09",
    "property-based testing (Hypothesis): generated poses vs independent Hamilton-product/homogeneous-matrix reference model, group-law oracles",
    "Generated-input search: >=4e4 (quick) / >=1.6e6 (thorough) drawn cases over all four pose types, covering w<0, w=0, 180-degree rotations, "
    "angles on both sides of +-pi, translations up to 1e6 and boxplus increments up to the unit radius; every group law (matrix product, "
    "ominus definition, two-sided inverse/identity, associativity, point action, boxplus, += rebinding, result types) is compared with an "
    "independently written model at 1e-11*(1+S)/1e-12. No counterexample among the explored cases; PBT cannot prove absence.",
    TRUSTED + "Unit quaternions are unit to ~1 ulp; increments with |rot| within 4 ulp above 1 are treated as ambiguous (either branch accepted).",
)

NOT_YET = {}
