"""Registry of claimed checks: feeds MANIFEST.json (python -m vf.mkmanifest)."""

CHECKS = {}


def reg(pid, design_ref, technique, level_text, level_note, category="exploration"):
    CHECKS[pid] = dict(design_ref=design_ref, technique=technique, level_text=level_text, level_note=level_note, category=category)


TRUSTED = "Trusted base: numpy/scipy float64, Hypothesis 6.168, the independent reference model vf/refmodel.py + vf/dual.py (self-tested at the start of every run: AD vs central differences, Hamilton vs matrix route). "

reg(
    "C09",
    "DESIGN.md section 4 C09",
    "property-based testing (Hypothesis): generated poses vs independent Hamilton-product/homogeneous-matrix reference model, group-law oracles",
    "Generated-input search: >=8e4 (quick) / >=1.6e6 (thorough) drawn cases over all four pose types, covering w<0, w=0, 180-degree rotations, "
    "angles on both sides of +-pi, translations up to 1e6 and boxplus increments up to the unit radius; every group law (matrix product, "
    "ominus definition, two-sided inverse/identity, associativity, point action, boxplus, += rebinding, result types) is compared with an "
    "independently written model at 1e-11*(1+S)/1e-12. No counterexample among the explored cases; PBT cannot prove absence.",
    TRUSTED + "Unit quaternions are unit to ~1 ulp; increments with |rot| within 4 ulp above 1 are treated as ambiguous (either branch accepted).",
)

reg(
    "C01",
    "DESIGN.md section 4 C01",
    "property-based testing (Hypothesis): generated edges; analytic Jacobian vs forward-mode AD of an independent reference model and vs Richardson central differences of the edge's own error",
    "Generated-input search over all 8 edge kinds with operands from all sign/quaternion/angle/scale classes (w<0, w=0, |w| tiny, theta at +-pi, "
    "S up to 1e6, rotated offsets): every Jacobian entry for both vertices is compared with an exact AD derivative of an independently "
    "written error model (1e-11) and with extrapolated central differences of calc_error itself (1e-8). 6.4e4 (quick) / 9.6e5 (thorough) edges. "
    "History sub-check: Jacobians requested before any other query and again after the vertices moved to a second state (incl. the same pose as -q / theta+2pi), with arbitrary fixed flags. Sampling, not proof.",
    TRUSTED + "SE(2) angular-error wrap and a possible SE(3) error sign flip are handled by comparing modulo the wrap/sign.",
)
reg(
    "C02",
    "DESIGN.md section 4 C02",
    "property-based testing (Hypothesis): differential against an independent Hamilton/homogeneous-matrix measurement model; metamorphic chi2 relations (zero, displacement, PSD, linearity)",
    "Generated-input search: calc_error / calc_chi2 / Graph.calc_chi2 compared with an independent model on single edges (8 kinds, information "
    "SPD with cross terms, PSD-singular, indefinite, diagonal, cond up to 1e8) and small graphs (1..12 edges, arbitrary ids); zero chi2 for "
    "measurements computed from the reference relative pose, exact d^T Omega d for displaced measurements, non-negativity for PSD, linearity in Omega.",
    TRUSTED + "SE(3) rotational error compared up to one global sign (sign independence is C08's subject).",
)
reg(
    "C10",
    "DESIGN.md section 4 C10",
    "property-based testing (Hypothesis): 12 Jacobian methods x 4 pose types vs forward-mode AD of the reference operations and Richardson differences of the code's operations; documented shapes asserted",
    "Generated-input search stratified over (method, type): documented shape, compact-rows relation for all 12 methods on every case; the drawn "
    "method's matrix (chained with jacobian_boxplus for SE(3)/SE(2), all output rows) equals the exact manifold derivative from AD (1e-11) and "
    "central differences (1e-8); for SE(2) also the raw-coordinate derivative. >=1000 cases per (method,type) pair in quick.",
    TRUSTED + "For SE(3) only tangent directions are claimed (radial quaternion direction is implementation-specific).",
)

reg(
    "C03",
    "DESIGN.md section 4 C03",
    "property-based testing (Hypothesis): generated graphs; one optimizer iteration vs dense reference normal equations (AD Jacobians, numpy.linalg.solve)",
    "Generated-input search over well-posed graphs of every family (mixed dimensionality, parallel and reversed edges, permuted vertex lists, "
    "arbitrary ids, several fixed vertices, unary/binary/ternary custom edges, fix_first_pose T/F): the increment actually applied by "
    "optimize(tol=0,max_iter=1) is recovered with the reference model and must satisfy the independently assembled dense normal equations "
    "(backward residual 1e-9 relative; direct difference 1e-9*cond) and fixed vertices must not move; reported chi2 values equal the reference chi2.",
    TRUSTED + "Cases with cond(H_ff) > 1e10 or a predicted rotational step >= 0.9 (boxplus clipping) are discarded and counted.",
)
reg(
    "C04",
    "DESIGN.md section 4 C04",
    "property-based testing (Hypothesis): generated linear graphs; differential against an independent closed-form weighted least squares (Cholesky whitening + lstsq)",
    "Generated-input search over R2/R3 graphs of 2..30 vertices (trees, loops, multi-edges, reversed edges, point-to-point landmark edges with offsets, "
    "SPD information with cross terms up to cond 1e4, inconsistent measurements, any fixed subset >= 1, initial guesses up to 1e6 away, default and random "
    "tol/max_iter): optimized positions and final_chi2 equal the independent closed-form optimum.",
    TRUSTED + "No claim on the `converged` flag.",
)
reg(
    "C06",
    "DESIGN.md section 4 C06",
    "property-based testing with fault injection (Hypothesis): generated graphs x fixed-subset modes incl. singular systems, isolated fixed/free vertices, diverging runs; invariants on fixed vertices + reduced-problem oracles",
    "Generated-input and fault-sequence search: for 10 fixed-subset modes (one anchor, several, all, isolated fixed vertices, isolated free vertex => exactly singular "
    "system, only landmarks fixed, none fixed, diverging) and 1..20 iterations, every vertex fixed at solve time is bitwise unchanged and finite in every "
    "outcome, the fixed flags follow fix_first_pose exactly, the free vertices solve the reduced problem (closed form for R^n, dense reference GN step "
    "for SE(n)), and fixing more vertices / appending isolated fixed vertices keeps the problem solvable. Found and repaired defect F1 (commit 86cf728).",
    TRUSTED + "In singular solves only fixed vertices and flags are judged (scipy may return NaN or garbage for free unknowns).",
)

reg(
    "C05",
    "DESIGN.md section 4 C05",
    "property-based testing (Hypothesis): generated SE(2)/SE(3) graphs inside a calibrated neighbourhood; stationarity measured by the Newton decrement of an independent dense reference system; ground-truth recovery for noise-free graphs",
    "Generated-input search over SE2/SE3 graphs of 3..40 poses with landmarks (rotated offsets), loop closures, multi-edges, several fixed vertices and "
    "cross-term information, started inside the stated neighbourhood (perturbation <= 0.3/0.3 rad, noise <= 0.05/cond): chi2 never increases, the reference "
    "Newton decrement at the returned state is <= tol*chi2 + floor (observed <= 0.02 of the bound over 1.6e4 runs), final_chi2 equals the reference chi2, and noise-free "
    "graphs reproduce the ground truth to 1e-6. Nothing is claimed outside the neighbourhood.",
    TRUSTED + "The neighbourhood bounds are calibration results, stated in DESIGN.md.",
)
reg(
    "C07",
    "DESIGN.md section 4 C07",
    "property-based testing (Hypothesis): metamorphic relation between a generated graph and its image under a generated rigid transform (built with the reference model)",
    "Generated-input metamorphic search: for graphs of every family and transforms with any rotation (incl. ~180 degrees) and translations up to 1e6, every edge error and chi2 "
    "are unchanged and k = 1..5 optimizer iterations commute with the transform, vertex by vertex (1e-8 scaled by the magnitudes involved).",
    TRUSTED + "Trajectory comparison restricted to the numerically stable regime (C05 neighbourhood, cond(H) <= 1e8).",
)
reg(
    "C08",
    "DESIGN.md section 4 C08",
    "property-based testing (Hypothesis): metamorphic relations under 7 generated representation changes (vertex/edge permutation, id relabelling, 2*pi shifts, quaternion negation, edge splitting, information scaling)",
    "Generated-input metamorphic search: chi2, k-iteration trajectories, default-optimize results and reports are compared between a generated graph and its re-representation. "
    "Quaternion negation is exercised with and without translation-rotation cross terms in the information. Found and repaired defect F2 (commit f929ed2).",
    TRUSTED + "Report equality is skipped (counted) when a stopping comparison is within rounding of its threshold; edges at a 180-degree residual are skipped for quaternion negation.",
)

reg(
    "C12",
    "DESIGN.md section 4 C12",
    "model-based property testing over generated call histories (Hypothesis): optimize() reports vs a single-step clone + independent reference chi2 + the documented stopping rule; fresh-graph differential for hidden state / verbose",
    "Generated histories of 1..4 optimize() calls (tol in {0} u 1e-12..1e-1, max_iter 1..30, verbose, fix_first_pose) on graphs inside and far outside the convergence "
    "neighbourhood: every recorded chi2 equals the reference chi2 of the corresponding single-step state, the stop index / converged / num_iterations / "
    "iteration_results bookkeeping follow the documented rule (threshold-ambiguous decisions accept both outcomes), final_chi2 = calc_chi2(), and each call is "
    "bit-identical to the same call on a fresh graph rebuilt from the prior state with the opposite verbose flag (no hidden state; printing does not alter results; "
    "subsumes call splitting).",
    TRUSTED + "States of the model come from the code's own one-iteration update (its correctness is C03's subject).",
)
reg(
    "C15",
    "DESIGN.md section 4 C15",
    "model-based stateful property testing (Hypothesis-generated operation programs of up to 50 steps with an invariant after every step): bitwise state snapshot vs model, repeated-query determinism",
    "Generated histories over graphs with built-in and numeric-Jacobian custom edges and deliberately shared estimate/information/offset objects: after each of up to 50 "
    "query / export / pose-operator / copy / optimize steps a bit-pattern snapshot of all poses, estimates, offsets, information matrices, ids, vertex_ids, flags and object "
    "bindings must equal the model (updated only by optimize: vertex poses, first fixed flag iff asked), and every query issued twice returns bit-identical values.",
    TRUSTED + "Bitwise comparison; optimize may rebind vertex.pose objects.",
)

reg(
    "C11",
    "DESIGN.md section 4 C11",
    "property-based testing over generated operation programs / histories (Hypothesis): exact rational angle arithmetic (80-digit pi) and quaternion-norm invariants along chains of up to 1e4 operations and optimizer runs",
    "Generated histories: chains of up to 1e4 pose operations (oplus, ominus, inverse, boxplus, copy, either operand order), SE2 constructor / from_matrix / "
    "neg_pi_to_pi on angles up to 1e6 and on both sides of +-pi, optimizer runs of 1..50 iterations inside and outside the convergence neighbourhood, normalize() "
    "on scaled quaternions of either sign. Every produced SE2 angle is in [-pi,pi] and congruent (exact Fraction arithmetic) to the exact result; every SE3 "
    "quaternion stays unit within 4*eps*(N+2); normalize() yields unit norm, w >= 0 and the same rotation.",
    TRUSTED + "Python fractions for exact arithmetic; float pi for the closed range bounds.",
)
reg(
    "C16",
    "DESIGN.md section 4 C16",
    "property-based testing over a generated family of custom edge programs (Hypothesis): numeric-fallback Jacobians vs forward-mode AD of reference twins with a per-case forward-difference error bound; differential optimization against exact-Jacobian twin graphs",
    "Generated-input/program search: six custom error functions (distance, range, relative pose, prior, midpoint, equal-step) over all admissible pose-type combinations; "
    "BaseEdge.calc_jacobians equals the AD derivative of the twin within 4*(h/2)*|second derivative| + rounding; graphs built from numeric edges converge to the same optimum "
    "(1e-3), chi2 (1e-6), at comparable speed, and to an exactly-stationary point of the reference system, as their exact-Jacobian twins.",
    TRUSTED + "Operands |t| <= 100, distances >= 0.1, C05 neighbourhood; non-smooth points of the error (SE2 wrap, 180-degree residual) are skipped and counted.",
)

reg(
    "C13",
    "DESIGN.md section 4 C13",
    "property-based testing over generated export/import histories (Hypothesis): round-trip oracle on real temporary files, bitwise number comparison, refusal oracle for non-expressible content",
    "Generated histories of 1..5 export/import cycles from three sources (graphs loaded from grammar-generated text, programmatic graphs with values spanning 1e-300..1e300, "
    "w<0 quaternions, huge/negative ids, non-diagonal information, registered and unregistered SE3 offsets, and graphs carrying one piece of non-expressible content): "
    "counts, order, ids, types and all numbers survive bit-identically (SE2 angles congruent, measurement quaternions +-q/|q|), chi2 is preserved, files are stable from "
    "the second cycle, and non-expressible content is refused (or, if written, loads back equal). Found and repaired defects F3 (e3818be) and F4 (39418f7); also exposes F2.",
    TRUSTED + "Custom edge types without to_g2o are documented to be skipped on export and are not generated.",
)
reg(
    "C14",
    "DESIGN.md section 4 C14",
    "grammar-based generation of .g2o text (Hypothesis) with a differential oracle against the generator's own model of the file; log capture; metamorphic junk-line deletion; loader entry-point differential",
    "Generated files mixing all 10 tags and two registered custom edge types in any legal order, with exact round-trip number formats and special literals, extreme magnitudes, "
    "1..4 spaces, LF/CRLF/mixed endings, blank/whitespace lines and near-miss junk lines: exactly one object per recognised line in file order with bit-identical numbers, correct "
    "symmetric expansion of the triangle, offsets resolved through parameter ids, one warning per unrecognised non-blank line carrying the line, no influence of junk lines, and six "
    "identical loader entry points.",
    TRUSTED + "Python float()/int() are the shared text-to-number primitives; only well-formed files are generated (no claim outside the grammar).",
)

reg(
    "C17",
    "DESIGN.md section 4 C17",
    "property-based testing (Hypothesis): generated pairs at pose / vertex / edge / graph level with a drawn relation (copy, far-below, far-above, structural, mixed-type); truth-table oracle, symmetry, totality",
    "Generated-input search over pairs of poses, vertices, odometry/landmark/custom edges and graphs: a copy or a single stored component perturbed by a factor >= 1e3 below the "
    "tolerance compares equal in both directions; a perturbation >= 1e3 above it or any structural difference (id, type even with identical numbers, sizes, vertex ids, edge "
    "class, information shape, measurement/offset type, offset id, graph size/order) compares unequal in both directions; no pair raises. Found and repaired defects F5 (44892c1) and F6 (fc311c6).",
    TRUSTED + "Only same-category pairs (pose/pose, vertex/vertex, edge/edge, graph/graph) are required to be comparable.",
)
reg(
    "C18",
    "DESIGN.md section 4 C18",
    "exhaustive enumeration of the finite product (itertools.product, sharded over 16 workers) against a validity predicate written from the documentation, plus Hypothesis-generated graphs for id binding under arbitrary list order / ids",
    "Exhaustive on every run: all 199,080 combinations (each near miss and each consistent one also over fixed vertices) of edge kind x vertex count x endpoint pose types x measurement type x offset type x information shape x id presence are "
    "constructed through Graph(); construction raises iff the documented validity predicate is false, accepted edges are bound to the listed vertex objects and have a finite chi2. "
    "Generated part: edges are bound by id irrespective of list order for negative / sparse / > 2^63 ids; an unknown id is rejected. Found and repaired defect F7.",
    TRUSTED + "Validity is an assert (python -O out of scope). The landmark pairing clause (SE2->R2, SE3->R3, R2->R2, R3->R3) is the only clause beyond the two docstring sentences; it has its own signature.",
)

NOT_YET = {}
